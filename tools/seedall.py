#!/venv/bin/python
"""tools/seedall.py [--verif DIR] [--tier quick] [--out FILE] [names...] : runs the property's check against every seeded change
(scratch worktree of /repo + patch), optionally with the checks of another copy of /verif (to
measure what an earlier revision of the machinery detected). Prints one line per seed."""
import json
import os
import subprocess
import sys

verif = '/verif'
tier = 'quick'
args = sys.argv[1:]
if '--verif' in args:
    verif = args[args.index('--verif') + 1]
    del args[args.index('--verif'):args.index('--verif') + 2]
outfile = None
if '--out' in args:
    outfile = args[args.index('--out') + 1]
    del args[args.index('--out'):args.index('--out') + 2]
if '--tier' in args:
    tier = args[args.index('--tier') + 1]
    del args[args.index('--tier'):args.index('--tier') + 2]
names = args or sorted(os.listdir('/verif/seeded'))
res = {}
for n in names:
    meta = json.load(open('/verif/seeded/%s/meta.json' % n))
    pid = meta['property']
    wt = '/tmp/seedall_%d_%s' % (os.getpid(), n)
    subprocess.run('git -C /repo worktree add --detach %s HEAD -q' % wt, shell=True)
    try:
        a = subprocess.run('git apply /verif/seeded/%s/patch.diff' % n, shell=True, cwd=wt)
        if a.returncode != 0:
            print(n, 'PATCH DOES NOT APPLY')
            continue
        e = dict(os.environ, VERIF_REPO=wt, VERIF_NO_EVIDENCE='1')
        p = subprocess.run('./check %s --tier %s' % (pid, tier), shell=True, cwd=verif, env=e, stdout=subprocess.PIPE, stderr=subprocess.STDOUT)
        out = p.stdout.decode('utf-8', 'replace')
        sigs = [l.strip() for l in out.split('\n') if l.strip().startswith('signature=')]
        res[n] = {'exit': p.returncode, 'signatures': len(sigs), 'first': sigs[0][:160] if sigs else None}
        if p.returncode not in (0, 1):
            res[n]['tail'] = out[-1500:]
            print(out[-1500:], flush=True)
        print(n, pid, tier, 'exit', p.returncode, len(sigs), 'signatures', (sigs[0][:120] if sigs else ''), flush=True)
    finally:
        subprocess.run('git -C /repo worktree remove --force %s' % wt, shell=True)
json.dump(res, open(outfile or '/tmp/seedall_%s.json' % os.path.basename(verif.rstrip('/')), 'w'), indent=1)
