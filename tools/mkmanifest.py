#!/venv/bin/python
"""Writes /verif/MANIFEST.json from the table below (one entry per claimed property) and
validates it against /root/.vp/MANIFEST.schema.json when jsonschema is importable."""
import json
import os

HERE = os.path.dirname(os.path.dirname(os.path.abspath(__file__)))
BASELINE = ("cd /repo && env -u PICOTOOL_VERIF /venv/bin/python -m pytest -ra -q -p no:cacheprovider "
            "--timeout=900 --continue-on-collection-errors")

# id -> (category, technique, text, note)
CLAIMED = {
 'C07': ('model_checking',
         'TLA+ reference lexical grammar (P8Lex) + TLC-enumerated strings replayed into the lexer + TLC trace validation of recorded token lists',
         'P8Lex.tla states the lexical grammar of the dialect. TLC (GenLex) enumerates every string up to the bound over class '
         'alphabets and every pair/triple of token spelling classes and prints the dictated tokens (kind, extent, value, line/column); '
         'picotool lexes each as one chunk and as per-line chunks and must agree. Recorded token lists of longer sources are judged by TLC (TraceLex). '
         'Exhaustive within the alphabets/lengths; beyond them sampled.',
         'Trusts TLC, P8Lex as the meaning of the dialect (Lua 5.2 manual 3.1 + PICO-8 extensions), the Python comparison of token lists. '
         'Out of the dialect and never judged: levelled long comments, numerals directly followed by a name character, unknown escapes, lone CR.'),
 'C08': ('model_checking',
         'TLA+ dialect grammar as a pushdown machine (LuaSyntax/GenProg) + TLC-enumerated derivations replayed into the parser + TLC trace validation of recorded trees (TraceSyn)',
         'LuaSyntax.tla holds the dialect grammar as data (95 productions with depth / line-scope markers). TLC (GenProg) enumerates every leftmost '
         'derivation up to the token bound in three modes plus short-if-heavy and simulated deep programs, with spec-computed separator flags; each is '
         'rendered in five layouts (tight, spaced, token-per-line, comments, semicolons), parsed, and the tree must yield exactly the printed derivation with every token consumed. '
         'Trees of fixtures and layout mutations are judged by the TraceSyn acceptor (derivation, yield, line scopes).',
         'Trusts TLC, LuaSyntax as the dialect, the renderer and the tree-to-derivation visitor (harness). Expressions are compared in source order only (the tree does not encode precedence). '
         'Unrenderable behaviours (statement after a nested short-if on the same line, short-if body starting with `(` or `do`) are counted as out of domain.'),
}

NOT_YET = {}


def main():
    props = [json.loads(l) for l in open(os.path.join(HERE, 'properties.jsonl'))]
    checks = []
    na = []
    for p in props:
        pid = p['id']
        if pid in CLAIMED:
            cat, tech, text, note = CLAIMED[pid]
            checks.append({
                'property_id': pid,
                'quick_cmd': './check %s --tier quick' % pid,
                'thorough_cmd': './check %s --tier thorough' % pid,
                'evidence_file': 'evidence/%s.json' % pid,
                'replay_cmd_template': './check %s --replay {path}' % pid,
                'engine': 'tlc',
                'level_claimed': {'category': cat, 'text': text, 'design_ref': 'DESIGN.md section 4 ' + pid},
                'level_note': note,
                'technique': tech,
            })
        else:
            na.append({'property_id': pid,
                       'reason': NOT_YET.get(pid, 'check not built yet in this revision of /verif (planned: DESIGN.md section 4 %s); not claimed until its TLA+ specification and conformance harness are committed' % pid)})
    m = {
        'version': 1,
        'setup_cmd': './setup.sh',
        'hooks': {
            'guard': 'PICOTOOL_VERIF',
            'enable': 'no source hooks are needed: checks import picotool from /repo\'s working tree and observe it at the public API / CLI boundary; ./check exports PICOTOOL_VERIF=1 for uniformity',
            'baseline_off_cmd': BASELINE,
            'source_commits': [],
            'add_only': True,
        },
        'engines': [
            {'name': 'tlc', 'path': 'harness/core.py', 'serves_properties': sorted(CLAIMED),
             'kind_free_text': 'TLC 1.8 on the TLA+ modules in specs/: behaviour generation (CONSTRAINT Emit), batch trace validation (verdict variable), exhaustive bounded model checking of the specs themselves; Python harness replays/records against /repo'},
        ],
        'checks': checks,
        'not_applicable': na,
        'notes': 'Model-based verification with explicit TLA+ specifications; see DESIGN.md. Genuine defects found are in known_findings.json (fixed ones as fix: commits in /repo).',
    }
    with open(os.path.join(HERE, 'MANIFEST.json'), 'w') as f:
        json.dump(m, f, indent=1)
    try:
        import jsonschema
        jsonschema.validate(m, json.load(open('/root/.vp/MANIFEST.schema.json')))
        print('MANIFEST.json valid: %d checks, %d not_applicable' % (len(checks), len(na)))
    except ImportError:
        print('MANIFEST.json written (jsonschema not available)')


if __name__ == '__main__':
    main()
