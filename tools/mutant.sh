#!/bin/sh
# tools/mutant.sh <patch> <ID> [tier] : apply a patch to /repo, run one check, undo the patch.
# Development aid (sensitivity of the checks); never leaves /repo modified.
patch="$(readlink -f "$1")"; id="$2"; tier="${3:-quick}"
cd /repo || exit 2
if ! git diff --quiet; then echo "repo dirty"; exit 2; fi
if ! git apply --check "$patch" 2>/dev/null; then
  if patch -p1 --dry-run -s < "$patch" >/dev/null 2>&1; then mode=patch; else echo "PATCH-DOES-NOT-APPLY $patch"; exit 3; fi
else mode=git; fi
if [ $mode = git ]; then git apply "$patch"; else patch -p1 -s < "$patch"; fi
cd /verif
VERIF_NO_EVIDENCE=1 ./check "$id" --tier "$tier" > /tmp/mutant_$$.log 2>&1; rc=$?
cd /repo && git checkout -q -- . && git clean -fdq -e '*.orig' >/dev/null 2>&1; find /repo -name '*.orig' -delete 2>/dev/null
echo "$(basename $patch) $id rc=$rc $(grep -c '^VIOLATION' /tmp/mutant_$$.log) violations; $(grep -m1 'signature=' /tmp/mutant_$$.log | cut -c1-160)"
rm -f /tmp/mutant_$$.log
exit 0
