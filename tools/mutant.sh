#!/bin/sh
# tools/mutant.sh <patch> <ID> [tier] : sensitivity aid. Applies a patch to a scratch worktree of
# /repo under /tmp (never to /repo itself), runs one check against it (VERIF_REPO), removes it.
patch="$(readlink -f "$1")"; id="$2"; tier="${3:-quick}"
wt="/tmp/mut_$$"
git -C /repo worktree add --detach "$wt" HEAD -q >/dev/null 2>&1 || { echo "cannot create worktree"; exit 2; }
cd "$wt" || exit 2
if git apply --check "$patch" 2>/dev/null; then git apply "$patch";
elif patch -p1 --dry-run -s < "$patch" >/dev/null 2>&1; then patch -p1 -s < "$patch";
else echo "PATCH-DOES-NOT-APPLY $patch"; cd /; git -C /repo worktree remove --force "$wt"; exit 3; fi
cd /verif
VERIF_REPO="$wt" VERIF_NO_EVIDENCE=1 ./check "$id" --tier "$tier" > "$wt.log" 2>&1; rc=$?
echo "$(basename "$(dirname "$patch")")/$(basename "$patch") $id rc=$rc $(grep -c '^VIOLATION' "$wt.log") violations; $(grep -m1 'signature=' "$wt.log" | cut -c1-170)"
[ "$rc" = 2 ] && tail -3 "$wt.log"
rm -f "$wt.log"; git -C /repo worktree remove --force "$wt"
exit 0
