#!/venv/bin/python
"""tools/seedtable.py [seedall-result.json] : writes docs/seeds.md, the table of all seeded changes (from seeded/*/meta.json)
with what the property's quick check said when the seed was first evaluated and what it says now."""
import json
import os
import sys

now = json.load(open(sys.argv[1])) if len(sys.argv) > 1 else {}
rows = []
for n in sorted(os.listdir('/verif/seeded')):
    m = json.load(open('/verif/seeded/%s/meta.json' % n))
    pid = m['property']
    d = m.get('detected_by', {})
    q = d.get(pid, {})
    first = 'quick: detected' if q.get('exit') == 1 else 'quick: **missed**'
    t = d.get(pid + '/thorough')
    if q.get('exit') != 1 and t is not None:
        first += ', thorough: %s' % ('detected' if t.get('exit') == 1 else 'missed' if t.get('exit') == 0 else 'machinery error (exit %s)' % t.get('exit'))
    h = m.get('history') or {}
    if isinstance(h, str):
        first = 'quick: **missed**' if 'MISSED' in h else first
        h = {}
    for k, v in h.items():
        if 'before' in k:
            first = ('quick (checks as they were before this round): %s' % ('detected' if 'detected' in v and 'MISSED' not in v else '**missed**'))
    cur = now.get(n)
    cur_s = '' if cur is None else ('quick: detected (%d signatures)' % cur['signatures'] if cur['exit'] == 1 else 'quick: **missed**' if cur['exit'] == 0 else 'exit %s' % cur['exit'])
    what = m['breaks'].strip().replace('\n', ' ').replace('|', '/')
    if len(what) > 260:
        what = what[:257] + '...'
    needs = m.get('needs', '').strip().replace('\n', ' ').replace('|', '/')
    if len(needs) > 200:
        needs = needs[:197] + '...'
    rows.append('| %s%s | %s *Needs:* %s | %s | %s |' % (n, ' (rebased)' if m.get('rebased') else '', what, needs, first, cur_s))
with open('/verif/docs/seeds.md', 'w') as f:
    f.write('# Seeded changes (written by sub-agents that saw only the property text and a scratch worktree)\n\n'
            'Rounds: `-a` first prompt; `-b` "needs something specific, a generator-based suite exists"; `-c` "a strong model-based suite exists: large inputs, '
            'rare syntax, options, versions, several files"; `-d` one named clause of the property per agent.\n'
            '"first result" is the property\'s check at the time the seed was written (for `-b` / `-c` re-measured with the checks as committed before that round), '
            '"now" is `tools/seedall.py` with the checks of this commit.\n\n'
            '| seed | change | first result | now |\n|------|--------|--------------|-----|\n' + '\n'.join(rows) + '\n')
print(len(rows), 'rows')
