#!/venv/bin/python
"""tools/seed.py <agent worktree> <property id> [name] [--other ID,ID] [--sub DIR] [--quick-only]

Confirms a seeded change delivered by a sub-agent (patch.diff, demo.py, notes.json under
<worktree>/seed/) in a FRESH scratch worktree of /repo, runs the property's check against it,
and stores it under /verif/seeded/<name>/ with meta.json. Nothing is ever applied to /repo.
"""
import json
import os
import shutil
import subprocess
import sys
import time


def sh(cmd, cwd=None, env=None, timeout=1800):
    e = dict(os.environ)
    if env:
        e.update(env)
    p = subprocess.run(cmd, shell=True, cwd=cwd, env=e, stdout=subprocess.PIPE, stderr=subprocess.STDOUT, timeout=timeout)
    return p.returncode, p.stdout.decode('utf-8', 'replace')


def main():
    src, pid = sys.argv[1], sys.argv[2]
    name = sys.argv[3] if len(sys.argv) > 3 and not sys.argv[3].startswith('--') else pid + '-a'
    others = []
    if '--other' in sys.argv:
        others = sys.argv[sys.argv.index('--other') + 1].split(',')
    seed = os.path.join(src, 'seed')
    if '--sub' in sys.argv:
        seed = os.path.join(seed, sys.argv[sys.argv.index('--sub') + 1])
    quick_only = '--quick-only' in sys.argv
    patch = os.path.join(seed, 'patch.diff')
    demo = os.path.join(seed, 'demo.py')
    notes = json.load(open(os.path.join(seed, 'notes.json'))) if os.path.exists(os.path.join(seed, 'notes.json')) else {}
    wt = '/tmp/seedchk_%d' % os.getpid()
    rc, out = sh('git -C /repo worktree add --detach %s HEAD -q' % wt)
    ran = []
    try:
        # the demo refers to the agent's worktree path: rewrite to the scratch path
        d = open(demo).read().replace(src.rstrip('/'), wt)
        dpath = os.path.join(wt, '_seed_demo.py')
        open(dpath, 'w').write(d)
        rc0, o0 = sh('/venv/bin/python _seed_demo.py', cwd=wt, env={'PYTHONPATH': wt})
        ran.append('demo on the unmodified tree: exit %d' % rc0)
        rca, oa = sh('git apply %s' % patch, cwd=wt)
        if rca != 0:
            print('PATCH DOES NOT APPLY', oa)
            return 1
        rct, ot = sh('/venv/bin/python -m pytest -q -p no:cacheprovider', cwd=wt, env={'PYTHONPATH': wt})
        tests = ot.strip().split('\n')[-1]
        ran.append('existing tests with the change: %s' % tests)
        rc1, o1 = sh('/venv/bin/python _seed_demo.py', cwd=wt, env={'PYTHONPATH': wt})
        ran.append('demo with the change: exit %d' % rc1)
        os.unlink(dpath)
        confirmed = rc0 == 0 and rc1 != 0 and ' passed' in tests and 'failed' not in tests
        t = time.time()
        rcc, oc = sh('./check %s --tier quick' % pid, cwd='/verif', env={'VERIF_REPO': wt, 'VERIF_NO_EVIDENCE': '1'})
        sigs = [l.strip() for l in oc.split('\n') if l.strip().startswith('signature=')]
        ran.append('./check %s --tier quick against the changed tree: exit %d, %d violation signatures (%.0fs)' % (pid, rcc, len(sigs), time.time() - t))
        detected = {pid: {'tier': 'quick', 'exit': rcc, 'first_signature': sigs[0][:200] if sigs else None}}
        if rcc == 0 and not quick_only:
            t = time.time()
            rcc2, oc2 = sh('./check %s --tier thorough' % pid, cwd='/verif', env={'VERIF_REPO': wt, 'VERIF_NO_EVIDENCE': '1'}, timeout=7200)
            sigs2 = [l.strip() for l in oc2.split('\n') if l.strip().startswith('signature=')]
            ran.append('./check %s --tier thorough against the changed tree: exit %d (%.0fs)' % (pid, rcc2, time.time() - t))
            detected[pid + '/thorough'] = {'tier': 'thorough', 'exit': rcc2, 'first_signature': sigs2[0][:200] if sigs2 else None}
        for o in others:
            rco, oo = sh('./check %s --tier quick' % o, cwd='/verif', env={'VERIF_REPO': wt, 'VERIF_NO_EVIDENCE': '1'})
            so = [l.strip() for l in oo.split('\n') if l.strip().startswith('signature=')]
            detected[o] = {'tier': 'quick', 'exit': rco, 'first_signature': so[0][:200] if so else None}
            ran.append('./check %s --tier quick against the changed tree: exit %d' % (o, rco))
    finally:
        sh('git -C /repo worktree remove --force %s' % wt)
    dest = os.path.join('/verif/seeded', name)
    print('confirmed=%s' % confirmed)
    for r in ran:
        print('  ' + r)
    if not confirmed:
        print('NOT KEPT (the change could not be confirmed)')
        print(o0[-500:], o1[-500:], tests)
        return 1
    os.makedirs(dest, exist_ok=True)
    shutil.copy(patch, os.path.join(dest, 'patch.diff'))
    shutil.copy(demo, os.path.join(dest, 'demo.py'))
    meta = {'property': pid, 'breaks': notes.get('summary', ''), 'needs': notes.get('needs', ''), 'why_tests_pass': notes.get('why_tests_pass', ''),
            'files': notes.get('files', []), 'origin': 'written by a fresh sub-agent given only the property text and a scratch worktree',
            'confirmed': ran, 'detected_by': detected,
            'how_to_rerun': 'tools/mutant.sh seeded/%s/patch.diff %s   (applies the patch to a scratch worktree under /tmp, never to /repo)' % (name, pid)}
    json.dump(meta, open(os.path.join(dest, 'meta.json'), 'w'), indent=1)
    print('kept as', dest, '; detected:', {k: v['exit'] for k, v in detected.items()})
    return 0


if __name__ == '__main__':
    sys.exit(main())
