
-- title comment
-- author comment
-- the code with the nodes
-- doesn't have to make sense

function f(arg1, ...)
  local zzz = {}
  zzz[arg1] = 999
  zzz['extra'] = ...
  return zzz
end

local function myprint(msg)
  print(msg)
end

a = 1
f(a, a+1 , a + 2 )
beta, gamma = 2, 3

do
  gamma = 4
  break
end

while a < 10 do
  -- increase a
  a += 1
  if a % 2 == 0 then
    f(a)
  elseif a > 5 then
    f(a, 5)
  else
    f(a, 1)
    beta *= 2
  end
end

repeat
  -- reduce a
  a -= 1
  f(a)
until a <= 0

for a=3, 10, 2 do
    f(a)
end

for beta in vals() do
      f(beta)
end

if a < 20 then
  goto mylabel
end
a = -20 + 2 - .1
gamma = 9.999e-3
::mylabel::

if (a * 10 > 100) myprint('yup')

prefix = 'foo'
mytable = {
  [prefix..'key'] = 111,
  barkey= 222;
  333
}

a=1; b=2; c=3

if ((x < 1) or (x > width) or (y < 1) or (y > height)) then
  return 0
end

::draw::
goto draw

