
v1 = nil
v2 = false
v3 = true
v4 = 123
v5 = 123.45
v6 = "string"
v7 = 7 < 10
v8 = -12
v9 = not false

func()
v10 = func(1, v3, "string")

v11 = { "Monday", "Tuesday", "Wednesday",
        "Thursday", "Friday", "Saturday",
        "Sunday" }
v12 = v11[3]

v13 = {}
v13.x = 100
v13.y = 200
v13["z"] = 300

do
 func()
 v2 = not v3
end

-- Comment
-- do
--  func()
--  v2 = not v3

counter = 10  -- end of line comment
while counter > 0 do
 counter -= 1
 if counter % 2 == 0 then
  func()
 end
 if func(counter) > 900 then
  break
 end
end

repeat
 counter += 1
 if counter % 2 == 0 then
  func()
 end
until counter == 10

if v4 > 0 then
 func(1)
elseif v5 and (v4 < 0) then
 func(-2)
elseif v4 < 0 then
 func(-1)
else
 func(0)
end

for x = 1,10,2 do
 func(x)
 if x % 2 == 0 then
  func(x+1)
 end
end

for x,y,z in foobar do
 func(x)
 if x % 2 == 0 then
  func(x+1)
 end
end

function func(x, y, z)
 local foobar = 999
 if x % 2 == 0 then
  func(x+1)
 end
 return 111
end

local function func2(x, y, z)
 if x % 2 == 0 then
  func(x+1)
 end
end

a = {"hello", "blah"}
add(a, "world")
del(a, "blah")
print(count(a)) -- 2

for item in all(a) do print(item) end
foreach(a, print)
foreach(a, function(i) print(i) end)

x = 1 y = 2 print(x+y) -- this line will run ok

-- PICO-8 shorthand
if (not b) i=1 j=2
a += 2
a -= 2
a *= 2
a /= 2
a %= 2
if (a != 2) print("ok") end
if (a ~= 2) print("ok") end
s ..= 'foo'

-- bitwise operators
a = 0x15 & 0x87
a = 0x15 | 0x87
a = 0x15 ^^ 0x87
a = ~0x15
a = 0x15 << 3
a = 0x15 >> 3
a = 0x15 >>> 3
a = 0x15 <<> 3
a = 0x15 >>< 3

-- integer division
-- note: this appears as double slash in this string
-- but it's actually a single slash
a = 17 \ 3

-- unary ops
x = @0x5200
y = %0x5300
z = $0x5400
a = ~0b11110000
