-- string literal forms
s1 = "\65\066\x43\n" .. 'it\'s' .. "q\"q"
s2 = "a\z
      b" .. "\0001" .. "\14\0151"
s3 = [[long
string]] .. [==[with ]] inside]==]
s4 = "\*\#\-\|\+\^" .. "tab\there"
print(s1 .. s2, #s3, s4)
