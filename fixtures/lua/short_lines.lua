-- short test
-- by dan
function foo()
  return 999
end
