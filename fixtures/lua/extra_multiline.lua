-- tokens that span several lines
-- (written for the verification work; not from the repository)
x=[[one
two
three]] y=2
s=[==[
a]]b
]=]
]==] t=1
--[[c1
c2
c3]] z=3
a="l1\
l2\
l3" b=5
c="x\z  
  
  y" d=6
f[[
a
]] g"s" h{[[

]]}
function k(...)
 local v=[[
 ]] return v, [=[
]=], "\
"
end
w = 0x.8 + 1e-3 + #"s" + ("m"):len() -- tail
