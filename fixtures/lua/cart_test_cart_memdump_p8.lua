-- memory dump
-- by dddaaannn
-- art and music by zep
-- (from helloworld)

cls()

function hexd(n)
  if (n<10) return n
  if (n==10) return 'a'
  if (n==11) return 'b'
  if (n==12) return 'c'
  if (n==13) return 'd'
  if (n==14) return 'e'
  if (n==15) return 'f'
end

function hex(n)
  return (hexd(shr(band(n,0xf0),4))..
          hexd(band(n,0x0f)))
end

function hexa(n)
  return (hex(shr(band(n,0xff00),8))..
          hex(band(n,0x00ff)))
end

function dump(base)
  for a=base,base+(16*8) do
    x = (a%8)*12+26
    y = flr((a-base)/8)*8
    print(hex(peek(a)), x, y)
    if (a%8)==0 then
      print(hexa(a), 0, y)
    end
  end
end

function _init()
  b = 0x3200
end
function _update()
  if (btnp(0)) b -= 16*8
  if (btnp(1)) b += 16*8
end
function _draw()
  cls()
  dump(b)
end
