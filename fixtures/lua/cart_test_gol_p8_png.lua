-- game of life: v1
-- by dddaaannn

alive_color = 7; width = 128; height = 128

board_i = 1
boards = {{}, {}}

cls()
for y=1,height do
  boards[1][y] = {}
  boards[2][y] = {}
  for x=1,width do
    boards[1][y][x] = 0
    boards[2][y][x] = 0
  end
end
  
-- draw an r pentomino
boards[1][60][64] = 1
boards[1][60][65] = 1
boards[1][61][63] = 1
boards[1][61][64] = 1
boards[1][62][64] = 1

function get(bi,x,y)
  if ((x < 1) or (x > width) or (y < 1) or (y > height)) then
    return 0
  end
  return boards[bi][y][x]
end

while true do
  for y=1,height do
    for x=1,width do
      pset(x-1,y-1,boards[board_i][y][x] * alive_color)
    end
  end
  flip()

  other_i = (board_i % 2) + 1
  for y=1,height do
    for x=1,width do       
      neighbors = (
        get(board_i,x-1,y-1) +
        get(board_i,x,y-1) +
        get(board_i,x+1,y-1) +
        get(board_i,x-1,y) +
        get(board_i,x+1,y) +
        get(board_i,x-1,y+1) +
        get(board_i,x,y+1) +
        get(board_i,x+1,y+1))
      if ((neighbors == 3) or
          ((boards[board_i][y][x] == 1) and neighbors == 2)) then
        boards[other_i][y][x] = 1
      else
        boards[other_i][y][x] = 0
      end
    end
  end
  board_i = other_i
end
