print("0.1.10c")

