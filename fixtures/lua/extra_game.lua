-- bouncer
-- by verif
-- a small but complete game loop
local balls, t = {}, 0
gravity = 0x0.2
function make_ball(x, y)
  local b = {x = x, y = y, dx = rnd(2) - 1, dy = 0, c = 7 + flr(rnd(8)),}
  add(balls, b)
  return b
end
function _init()
  for i = 1, 10 do make_ball(rnd(128), rnd(64)) end
  cls() // clear
end
function _update()
  t += 1
  for b in all(balls) do
    b.dy += gravity
    b.x += b.dx b.y += b.dy
    if (b.y > 120) b.y = 120 b.dy *= -0.9
    if b.x < 0 or b.x > 127 then
      b.dx = -b.dx
    elseif b.c == 8 and not btn(4) then
      b.c = 9
    else
      b.c = (b.c + 1) % 16
    end
  end
  if (btnp(5)) make_ball(64, 0) else t = 0
  while #balls > 50 do del(balls, balls[1]) end
  repeat t -= 1 until t < 100
end
function _draw()
  cls()
  for i, b in pairs(balls) do
    circfill(b.x, b.y, 2, b.c)
    pset(b.x \ 1, b.y & 0xff, t % 16)
  end
  print("balls: " .. #balls, 0, 0, 7)
  goto done
  ::done::
end
