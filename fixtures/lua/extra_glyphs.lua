-- glyph identifiers, labels and gotos
-- (bytes >= 0x80 are identifier characters)
local €x, y™, Top, top = 1, 2, 3, 4
function updŽ(‹, ‘)
  if (btn(‹)) €x += ‘
  ::€again::
  €x -= 1
  if €x > 0 then goto €again end
  return €x, Top + top
end
::Top:: ::top::
for i = 1, 3 do
  if i == 2 then goto Èskip end
  print(i .. "Ž")
  ::Èskip::
end
goto top
