function _update()
end

function _draw()
 cls()
 print("0.1.10c")
end
