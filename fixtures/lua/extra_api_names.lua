-- every PICO-8 API / callback name picotool documents (spec data: P8Names.tla CoreReserved)
-- each read once and called once; luamin must leave them as written
v0 = __index
__index(v0)
v1 = _draw
_draw(v1)
v2 = _init
_init(v2)
v3 = _update
_update(v3)
v4 = _update60
_update60(v4)
v5 = _update_buttons
_update_buttons(v5)
v6 = abs
abs(v6)
v7 = add
add(v7)
v8 = all
all(v8)
v9 = assert
assert(v9)
v10 = atan2
atan2(v10)
v11 = band
band(v11)
v12 = bnot
bnot(v12)
v13 = bor
bor(v13)
v14 = btn
btn(v14)
v15 = btnp
btnp(v15)
v16 = bxor
bxor(v16)
v17 = camera
camera(v17)
v18 = cartdata
cartdata(v18)
v19 = ceil
ceil(v19)
v20 = chr
chr(v20)
v21 = circ
circ(v21)
v22 = circfill
circfill(v22)
v23 = clip
clip(v23)
v24 = cls
cls(v24)
v25 = cocreate
cocreate(v25)
v26 = color
color(v26)
v27 = coresume
coresume(v27)
v28 = cos
cos(v28)
v29 = costatus
costatus(v29)
v30 = count
count(v30)
v31 = cstore
cstore(v31)
v32 = cursor
cursor(v32)
v33 = del
del(v33)
v34 = deli
deli(v34)
v35 = dget
dget(v35)
v36 = dir
dir(v36)
v37 = dset
dset(v37)
v38 = extcmd
extcmd(v38)
v39 = fget
fget(v39)
v40 = fillp
fillp(v40)
v41 = flip
flip(v41)
v42 = flr
flr(v42)
v43 = folder
folder(v43)
v44 = foreach
foreach(v44)
v45 = fset
fset(v45)
v46 = getmetatable
getmetatable(v46)
v47 = info
info(v47)
v48 = line
line(v48)
v49 = load
load(v49)
v50 = ls
ls(v50)
v51 = lshr
lshr(v51)
v52 = map
map(v52)
v53 = mapdraw
mapdraw(v53)
v54 = max
max(v54)
v55 = memcpy
memcpy(v55)
v56 = memset
memset(v56)
v57 = menuitem
menuitem(v57)
v58 = mget
mget(v58)
v59 = mid
mid(v59)
v60 = min
min(v60)
v61 = mset
mset(v61)
v62 = music
music(v62)
v63 = ord
ord(v63)
v64 = oval
oval(v64)
v65 = ovalfill
ovalfill(v65)
v66 = pairs
pairs(v66)
v67 = pal
pal(v67)
v68 = palt
palt(v68)
v69 = peek
peek(v69)
v70 = peek2
peek2(v70)
v71 = peek4
peek4(v71)
v72 = pget
pget(v72)
v73 = poke
poke(v73)
v74 = poke2
poke2(v74)
v75 = poke4
poke4(v75)
v76 = print
print(v76)
v77 = printh
printh(v77)
v78 = pset
pset(v78)
v79 = rawequal
rawequal(v79)
v80 = rawget
rawget(v80)
v81 = rawlen
rawlen(v81)
v82 = rawset
rawset(v82)
v83 = reboot
reboot(v83)
v84 = rect
rect(v84)
v85 = rectfill
rectfill(v85)
v86 = reload
reload(v86)
v87 = resume
resume(v87)
v88 = rnd
rnd(v88)
v89 = rotl
rotl(v89)
v90 = rotr
rotr(v90)
v91 = run
run(v91)
v92 = save
save(v92)
v93 = self
self(v93)
v94 = serial
serial(v94)
v95 = setmetatable
setmetatable(v95)
v96 = sfx
sfx(v96)
v97 = sget
sget(v97)
v98 = sgn
sgn(v98)
v99 = shl
shl(v99)
v100 = shr
shr(v100)
v101 = sin
sin(v101)
v102 = split
split(v102)
v103 = spr
spr(v103)
v104 = sqrt
sqrt(v104)
v105 = srand
srand(v105)
v106 = sset
sset(v106)
v107 = sspr
sspr(v107)
v108 = stat
stat(v108)
v109 = stop
stop(v109)
v110 = sub
sub(v110)
v111 = t
t(v111)
v112 = time
time(v112)
v113 = tline
tline(v113)
v114 = tonum
tonum(v114)
v115 = tostr
tostr(v115)
v116 = type
type(v116)
v117 = yield
yield(v117)
v118 = ƒ
ƒ(v118)
v119 = ‹
‹(v119)
v120 = Ž
Ž(v120)
v121 = ‘
‘(v121)
v122 = ”
”(v122)
v123 = —
—(v123)
