"""Binding of System.tla (umbrella: a directory of carts and p8tool's commands as actions) to the
code: TLC draws command histories (writep8 / luamin / luafmt [--overwrite] / build, each either
committing or failing) and prints the expected directory after every step; the harness runs the
same commands through pico8.tool.main in a sandbox (a failing command = its last cart-formatter call raises),
abstracts the directory back to ids after every step and compares it with the model.
Each property's driver reports the mismatches that concern its own clauses (focus)."""
import io
import json
import os
import random
import shutil
import tempfile

from . import core, cartio, refpng, lexref

CFG = '''SPECIFICATION Spec
CONSTANTS MaxSteps = %d
NSeq = %d
Mode = "%s"
CONSTRAINT Emit
CHECK_DEADLOCK FALSE
'''
MC = '''SPECIFICATION MCSpec
CONSTANTS MaxSteps = 2
NSeq = 1
Mode = "all"
INVARIANT ProgramsOnlyFromSources
PROPERTY FailureIsNoop
PROPERTY PictureStable
PROPERTY SourcesUntouched
CHECK_DEADLOCK FALSE
'''
PROG = {'progA': b'-- cart a\n-- by a\nfunction _update()\n ta = (ta or 0) + 1\n if (ta > 10) ta = 0\nend\nfunction _draw()\n cls() print("a" .. ta, 1, 2, 7)\nend\n',
        'progB': b'-- cart b\n-- by b\nlocal tb = {1, 2, 3}\nfunction _init()\n for i = 1, #tb do tb[i] *= 2 end\nend\nfunction _draw()\n cls(1) print(tb[1] + tb[2], 0x10, 0b1, 8)\nend\n'}
PAT = {'A': (3, 10), 'B': (5, 77)}
REG = {'gfx': (0, 0x2000), 'map': (0x2000, 0x3000), 'gff': (0x3000, 0x3100), 'music': (0x3100, 0x3200), 'sfx': (0x3200, 0x4300)}
PATHS = ["a.p8", "b.p8.png", "out.p8", "out.p8.png", "a_fmt.p8", "b_fmt.p8.png", "out_fmt.p8", "out_fmt.p8.png", "c.p8.png"]
_C = {}


def mem_for(tag):
    m = bytearray(cartio.memory(PAT[tag], {}))
    for a in range(0x3103, 0x3200, 4):
        m[a] &= 127
    return bytes(m)


def sig_tokens(code):
    toks, err = lexref.lex_impl([code])
    if toks is None:
        return None
    out = []
    for t in toks:
        k = lexref.kind_of(t)
        if k in ('name', 'label'):
            out.append((k, b''))
        elif k in lexref.SIG:
            out.append((k, t.code))
    return out


def consts():
    if not _C:
        from pico8.game import game
        from pico8.game.formatter import p8png
        _C['empty'] = cartio.game_memory(game.Game.make_empty_game())
        _C['sig'] = {k: sig_tokens(v) for k, v in PROG.items()}
        _C['labelA'] = cartio.label_bytes((9, 9), {})
        rnd = random.Random(11)
        _C['picB_rows'] = [bytes(rnd.randrange(256) for _ in range(160 * 4)) for _ in range(205)]
        w, h, ch, rows = refpng.decode_png(open(p8png.EMPTY_LABEL_FNAME, 'rb').read())
        _C['blank_upper'] = [bytes(x & 0xfc for x in r) for r in rows] if ch == 4 else None
        _C['picB_upper'] = [bytes(x & 0xfc for x in r) for r in _C['picB_rows']]
        _C['picC_rows'] = [bytes(rnd.randrange(256) for _ in range(160 * 4)) for _ in range(205)]
        _C['picC_upper'] = [bytes(x & 0xfc for x in r) for r in _C['picC_rows']]
    return _C


def make_sandbox(tmp, mode='all'):
    from pico8.game import file as gfile
    c = consts()
    S = tempfile.mkdtemp(prefix='sys_', dir=tmp)
    gfile.to_file(cartio.make_game(mem_for('A'), PROG['progA'], c['labelA'], 16), os.path.join(S, 'a.p8'))
    with open(os.path.join(S, 'b.p8.png'), 'wb') as f:
        f.write(refpng.encode_png(160, 205, c['picB_rows']))
    gfile.to_file(cartio.make_game(mem_for('B'), PROG['progB'], None, 16), os.path.join(S, 'b.p8.png'))
    if mode == 'png':
        with open(os.path.join(S, 'c.p8.png'), 'wb') as f:
            f.write(refpng.encode_png(160, 205, c['picC_rows']))
        gfile.to_file(cartio.make_game(mem_for('B'), PROG['progB'], None, 16), os.path.join(S, 'c.p8.png'))
    return S


def abstract(S):
    """the directory as the model sees it"""
    from pico8.game import file as gfile
    c = consts()
    fs = {}
    for p in PATHS:
        fp = os.path.join(S, p)
        if not os.path.exists(fp):
            fs[p] = {'exists': False}
            continue
        e = {'exists': True}
        try:
            g = gfile.from_file(fp)
        except Exception as ex:  # noqa
            fs[p] = {'exists': True, 'lua': 'unreadable:%s' % type(ex).__name__, 'sec': {}, 'label': '?'}
            continue
        code = cartio.game_code(g)
        st = sig_tokens(code)
        e['lua'] = 'none' if not code.strip() else next((k for k, v in c['sig'].items() if v == st), 'other')
        mem = cartio.game_memory(g)
        e['sec'] = {}
        for s, (a, b) in REG.items():
            e['sec'][s] = 'A' if mem[a:b] == mem_for('A')[a:b] else 'B' if mem[a:b] == mem_for('B')[a:b] else 'empty' if mem[a:b] == c['empty'][a:b] else 'other'
        if p.endswith('.png'):
            try:
                w, h, ch, rows = refpng.decode_png(open(fp, 'rb').read())
                up = [bytes(x & 0xfc for x in r) for r in rows]
                e['label'] = 'picB' if up == c['picB_upper'] else 'picC' if up == c['picC_upper'] else 'blank' if up == c['blank_upper'] else 'other'
            except Exception:
                e['label'] = 'invalid-png'
        else:
            lab = bytes(g.label._data) if g.label is not None else None
            e['label'] = 'labelA' if lab == c['labelA'] else 'none' if (lab is None or not any(lab)) else 'other'
        fs[p] = e
    return fs


def run_cmd(S, cmd):
    from pico8 import tool
    from pico8.lua import lua
    c = cmd['c']
    src = os.path.join(S, cmd['src'])
    if c == 'cp':
        if not os.path.exists(src):
            return 'missing-source', ''       # (only after the directory has diverged from the model)
        shutil.copyfile(src, os.path.join(S, cmd['dst']))
        return 0, ''
    if c == 'writep8':
        argv, wcls = ['writep8', src], lua.LuaEchoWriter
    elif c == 'luamin':
        argv, wcls = ['luamin', src], lua.LuaMinifyTokenWriter
    elif c == 'luafmt':
        argv, wcls = ['luafmt', src], lua.LuaFormatterWriter
    elif c == 'luafmt-overwrite':
        argv, wcls = ['luafmt', '--overwrite', src], lua.LuaFormatterWriter
    else:
        out = os.path.join(S, cmd['dst'])
        argv = ['build', out] + (['--' + cmd['sect'], src] if cmd['kind'] == 'from' else ['--empty-' + cmd['sect']])
        wcls = lua.LuaEchoWriter
    # a failing command: the LAST cart-formatter call the command makes raises (counted in a dry run on a copy of the
    # sandbox), i.e. the failure comes as late as it can - after whatever the command did before its final write
    from pico8.game.formatter import p8 as p8fmt, p8png as pngfmt
    fmts = (p8fmt.P8Formatter, pngfmt.P8PNGFormatter)
    origs = [f.__dict__['to_file'] for f in fmts]
    calls = [0]
    fail_at = [None]

    def wrap(o):
        def patched(c, *a, **kw):
            calls[0] += 1
            if fail_at[0] is not None and calls[0] == fail_at[0]:
                raise RuntimeError('injected failure of the cart formatter (call %d)' % calls[0])
            return o.__func__(c, *a, **kw)
        return classmethod(patched)

    def run(argv_):
        try:
            return tool.main(['--quiet'] + argv_), ''
        except SystemExit as e:
            return e.code, ''
        except Exception as e:  # noqa
            return 'exception', '%s: %s' % (type(e).__name__, str(e)[:60])
    for f, o in zip(fmts, origs):
        f.to_file = wrap(o)
    try:
        if not cmd['ok']:
            S2 = S + '_dry'
            shutil.copytree(S, S2)
            run([x.replace(S, S2) if isinstance(x, str) else x for x in argv])
            shutil.rmtree(S2, ignore_errors=True)
            fail_at[0] = max(calls[0], 1)
            calls[0] = 0
        rc, err = run(argv)
    finally:
        for f, o in zip(fmts, origs):
            f.to_file = o
    return rc, err


def _history(item):
    steps, tmp, mode = item
    core.quiet_picotool()
    S = make_sandbox(tmp, mode)
    out = []
    prev = abstract(S)
    for s in steps:
        rc, err = run_cmd(S, s['cmd'])
        cur = abstract(S)
        out.append({'rc': rc, 'err': err, 'fs': cur, 'prev': prev})
        prev = cur
        if diff_fs(s['fs'], cur):
            break           # the directory has diverged from the model: the later steps of this history are not comparable
    shutil.rmtree(S, ignore_errors=True)
    return out


def diff_fs(want, got):
    """[(path, field, want, got)]"""
    d = []
    for p in PATHS:
        w, g = want[p], got[p]
        if not w['exists']:
            if g['exists']:
                d.append((p, 'exists', False, True))
            continue
        if not g['exists']:
            d.append((p, 'exists', True, False))
            continue
        if w['lua'] != g.get('lua'):
            d.append((p, 'lua', w['lua'], g.get('lua')))
        for s in REG:
            if w['sec'][s] != g.get('sec', {}).get(s):
                d.append((p, 'sec:' + s, w['sec'][s], g.get('sec', {}).get(s)))
        if w['label'] != g.get('label'):
            d.append((p, 'label', w['label'], g.get('label')))
    return d


FOCUS = {
    'C13': lambda cmd, d: cmd['c'] == 'build' and cmd['ok'],
    'C11': lambda cmd, d: not cmd['ok'],
    'C04': lambda cmd, d: cmd['ok'] and cmd['c'] != 'cp' and cmd['dst'].endswith('.png') and d[0] == cmd['dst'],
    'C03': lambda cmd, d: cmd['ok'] and cmd['c'] == 'writep8',
    'C01': lambda cmd, d: cmd['ok'] and cmd['c'] == 'luamin' and d[1] == 'lua',
    'C09': lambda cmd, d: cmd['ok'] and cmd['c'].startswith('luafmt') and d[1] == 'lua',
}


def run(ctx, focus, nseq=None, depth=4, mode='all'):
    """Executes NSeq random command histories of System.tla against the real CLI and reports the
    mismatches that concern `focus`. Returns (steps executed, steps agreeing)."""
    nseq = nseq or (24 if ctx.quick else 600)
    if not any(r.get('name') == 'MC_System' for r in ctx.mc_results):
        ctx.model_check('System', MC, name='MC_System', workers=8)
    r = ctx.tlc('System', CFG % (depth, nseq, mode), name='GenSystem_' + mode, extra=['-seed', str(ctx.seed + 17)])
    by = {}
    for x in r.jsons:
        by.setdefault(x['sid'], []).append(x)
    hists = [sorted(v, key=lambda x: x['step']) for k, v in sorted(by.items())]
    res = core.parmap(_history, [(h, ctx.tmp, mode) for h in hists], procs=16, chunksize=1, min_parallel=4)
    total = agree = 0
    for h, obs in zip(hists, res):
        for k, (s, o) in enumerate(zip(h, obs)):
            total += 1
            cmd = s['cmd']
            d = diff_fs(s['fs'], o['fs'])
            if cmd['ok'] and o['rc'] not in (0, None):
                d.append((cmd['dst'], 'command-failed', 'rc 0', '%s %s' % (o['rc'], o['err'])))
            mine = [x for x in d if FOCUS[focus](cmd, x)]
            if not d:
                agree += 1
            if mine:
                x = mine[0]
                desc = '%s %s -> %s%s' % (cmd['c'], cmd['src'], cmd['dst'], (' (%s %s)' % (cmd.get('kind'), cmd.get('sect'))) if cmd['c'] == 'build' else '')
                ctx.violation('system/%s/%s/%s' % (cmd['c'] if cmd['ok'] else 'failed-' + cmd['c'], x[1].split(':')[0], 'png' if x[0].endswith('.png') else 'p8'),
                              'after step %d of a command history (%s, %s) the directory differs from System.tla: %s %s should be %s but is %s; history: %s' % (
                                  k + 1, desc, 'commits' if cmd['ok'] else 'fails', x[0], x[1], x[2], x[3], [c['cmd']['c'] + ('' if c['cmd']['ok'] else '!') for c in h[:k + 1]]),
                              {'kind': 'system', 'history': [c['cmd'] for c in h[:k + 1]]})
                break
            if d:
                break       # the model and the directory have diverged: later steps of this history are not comparable
    ctx.notes['system_history_steps' + ('' if mode == 'all' else '_' + mode)] = total
    ctx.notes['system_history_steps_agreeing' + ('' if mode == 'all' else '_' + mode)] = agree
    ctx.traces += agree
    ctx.nontrivial += agree
    ctx.evaluations += total
    return total, agree
