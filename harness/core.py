"""Shared machinery of the /verif checks: TLC runner, trace batches, verdicts, evidence,
known findings, violation reporting.

Every check is `./check <ID> --tier quick|thorough` and is implemented by
harness/drivers/<id>.py : run(ctx).  The driver talks to TLC only through this module.
"""
import json
import os
import re
import shutil
import subprocess
import sys
import tempfile
import time

VERIF = os.path.dirname(os.path.dirname(os.path.abspath(__file__)))
SPECS = os.path.join(VERIF, 'specs')
REPO = os.environ.get('VERIF_REPO', '/repo')
TLA_JAR = '/opt/veriftools/tla/tla2tools.jar'
TLA_DEPS = '/opt/veriftools/tla/CommunityModules-deps.jar'

if REPO not in sys.path:
    sys.path.insert(0, REPO)


class MachineryError(Exception):
    """Something in the verification machinery itself failed (exit status 2)."""


def b2l(b):
    """bytes -> list of ints (text is Seq(0..255) on the TLA+ side)."""
    return list(b)


def l2b(l):
    return bytes(l)


class TlcResult:
    def __init__(self):
        self.stdout = ''
        self.rc = None
        self.generated = 0
        self.distinct = 0
        self.wall = 0.0
        self.cmd = ''
        self.tuples = []      # parsed <<...>> PrintT lines (as python lists)
        self.jsons = []       # parsed PrintT(ToJson(..)) lines
        self.errors = []
        self.coverage = {}    # action name -> count (if -coverage)


_TUPLE_RE = re.compile(r'^<<.*>>$')


def _parse_tla_value(s):
    """Parse the small subset of TLA+ values our PrintT lines use:
    tuples of strings / integers / booleans / nested tuples."""
    pos = 0
    n = len(s)

    def ws():
        nonlocal pos
        while pos < n and s[pos] in ' \n\t':
            pos += 1

    def val():
        nonlocal pos
        ws()
        if s.startswith('<<', pos):
            pos += 2
            items = []
            ws()
            if s.startswith('>>', pos):
                pos += 2
                return items
            while True:
                items.append(val())
                ws()
                if s.startswith('>>', pos):
                    pos += 2
                    return items
                if s[pos] != ',':
                    raise ValueError('expected , at %d in %r' % (pos, s[:80]))
                pos += 1
        if s[pos] == '"':
            j = pos + 1
            out = []
            while s[j] != '"':
                if s[j] == '\\':
                    j += 1
                    out.append({'n': '\n', 't': '\t'}.get(s[j], s[j]))
                else:
                    out.append(s[j])
                j += 1
            pos = j + 1
            return ''.join(out)
        m = re.match(r'-?\d+', s[pos:])
        if m:
            pos += len(m.group(0))
            return int(m.group(0))
        if s.startswith('TRUE', pos):
            pos += 4
            return True
        if s.startswith('FALSE', pos):
            pos += 5
            return False
        raise ValueError('cannot parse TLA+ value at %d: %r' % (pos, s[pos:pos + 40]))

    v = val()
    return v


class Ctx:
    """Per-run context of one check."""

    def __init__(self, pid, tier, seed, replay=None):
        self.pid = pid
        self.tier = tier
        self.seed = seed
        self.replay = replay
        self.t0 = time.time()
        self.tmp = tempfile.mkdtemp(prefix='verif_%s_' % pid)
        self.tlc_runs = []
        self.states = 0
        self.transitions = 0
        self.traces = 0
        self.evaluations = 0
        self.nontrivial = 0
        self.out_of_domain = 0
        self.undecided = 0
        self.model_drift = []
        self.samples = []
        self.violations = []      # dicts: signature, what, replay
        self.known_hits = {}      # signature -> count
        self.notes = {}
        self.canaries_rejected = 0
        self.canaries_total = 0
        self.clauses = {}         # verdict clause -> count
        self.exhaustive = False
        self.rule = ''
        self.assumptions = []
        self.mc_results = []      # model-checking-only runs: name, states, result
        self._replay_n = 0
        self.findings = load_findings()

    @property
    def quick(self):
        return self.tier == 'quick'

    # ------------------------------------------------------------------ TLC
    def tlc(self, module, cfg_text, env=None, workers=16, simulate=None, depth=None,
            coverage=False, timeout=2400, expect_fail=False, extra=None, heap='8g',
            deadlock=True, name=None, on_json_batch=None, batch=4000):
        """Run TLC on specs/<module>.tla with the given cfg text. Returns TlcResult."""
        tag = name or module
        cfg = os.path.join(self.tmp, '%s_%d.cfg' % (tag, len(self.tlc_runs)))
        with open(cfg, 'w') as f:
            f.write(cfg_text)
        meta = os.path.join(self.tmp, 'meta_%d' % len(self.tlc_runs))
        jtmp = os.path.join(self.tmp, 'jtmp')
        os.makedirs(jtmp, exist_ok=True)
        cmd = ['java', '-XX:+UseParallelGC', '-Xmx' + heap, '-Xss64m', '-Djava.io.tmpdir=' + jtmp,
               '-cp', TLA_JAR + ':' + TLA_DEPS, 'tlc2.TLC',
               '-workers', str(workers), '-metadir', meta, '-noGenerateSpecTE',
               '-config', cfg]
        if not deadlock:
            cmd.append('-deadlock')
        if coverage:
            cmd += ['-coverage', '1']
        if simulate:
            cmd += ['-simulate', simulate]
            if depth:
                cmd += ['-depth', str(depth)]
            cmd += ['-seed', str(self.seed)]
        if extra:
            cmd += extra
        cmd.append(os.path.join(SPECS, module + '.tla'))
        e = dict(os.environ)
        if env:
            e.update({k: str(v) for k, v in env.items()})
        t = time.time()
        outp = os.path.join(self.tmp, 'tlc_out_%d.txt' % len(self.tlc_runs))
        rc = None
        with open(outp, 'wb') as of:
            try:
                p = subprocess.run(cmd, cwd=SPECS, env=e, stdout=of, stderr=subprocess.STDOUT,
                                   timeout=timeout)
                rc = p.returncode
            except subprocess.TimeoutExpired:
                if simulate:
                    rc = 0      # simulation under an outer timeout is legitimate
                else:
                    shutil.rmtree(meta, ignore_errors=True)
                    raise MachineryError('TLC timeout on %s' % module)
        shutil.rmtree(meta, ignore_errors=True)
        r = TlcResult()
        r.wall = time.time() - t
        r.rc = rc
        r.cmd = 'tlc -workers %d %s%s.tla -config %s' % (
            workers, ('-simulate %s ' % simulate) if simulate else '', module, os.path.basename(cfg))
        tail = []
        pending = []
        with open(outp, 'r', encoding='utf-8', errors='replace') as f:
            for line in f:
                line = line.rstrip('\r\n')
                if line.startswith('"') and line.endswith('"') and len(line) > 1:
                    if on_json_batch is not None:
                        pending.append(line)
                        if len(pending) >= batch:
                            on_json_batch(pending)
                            pending = []
                    else:
                        try:
                            r.jsons.append(json.loads(json.loads(line)))
                        except Exception:
                            r.errors.append('unparsable json line: %s' % line[:100])
                    continue
                if line.startswith('<<') and line.endswith('>>'):
                    try:
                        r.tuples.append(_parse_tla_value(line))
                    except Exception as ex:
                        r.errors.append('unparsable tuple line: %s (%s)' % (line[:100], ex))
                    continue
                tail.append(line)
                if len(tail) > 400:
                    del tail[:200]
                if line.startswith('Error:') or ('Exception' in line and 'tlc2' in line):
                    r.errors.append(line)
                m = re.match(r'(\d+) states generated, (\d+) distinct states found', line)
                if m:
                    r.generated = int(m.group(1))
                    r.distinct = int(m.group(2))
                m = re.match(r'The number of states generated: (\d+)', line)
                if m:
                    r.generated = max(r.generated, int(m.group(1)))
                    r.distinct = max(r.distinct, r.generated)
                m = re.match(r'<(\w+) line \d+, col \d+ to line \d+, col \d+ of module (\w+)>: (\d+):(\d+)', line)
                if m:
                    r.coverage[m.group(1)] = r.coverage.get(m.group(1), 0) + int(m.group(4))
        if pending and on_json_batch is not None:
            on_json_batch(pending)
        r.stdout = '\n'.join(tail)
        os.unlink(outp)
        self.tlc_runs.append(r.cmd)
        if os.environ.get('VERIF_DEBUG'):
            sys.stderr.write('[tlc %.1fs %d states] %s\n' % (r.wall, r.distinct, r.cmd))
        self.states += r.distinct
        self.transitions += r.generated
        if not expect_fail and (r.rc != 0 or r.errors):
            sys.stderr.write(r.stdout[-4000:])
            raise MachineryError('TLC failed on %s (rc=%s): %s' % (module, r.rc, r.errors[:3]))
        return r

    def model_check(self, module, cfg_text, name=None, expect_violation=None, **kw):
        """Exhaustive bounded check of a spec on its own. If expect_violation is given
        (a mutant configuration of the spec), TLC must report that invariant violated."""
        r = self.tlc(module, cfg_text, expect_fail=bool(expect_violation), name=name, **kw)
        rec = {'name': name or module, 'states': r.distinct, 'generated': r.generated,
               'wall_s': round(r.wall, 1)}
        if expect_violation:
            names = [expect_violation] if isinstance(expect_violation, str) else list(expect_violation)
            ok = r.rc != 0 and any(('Invariant %s is violated' % n) in r.stdout or ('Action property %s is violated' % n) in r.stdout
                                   or ('invariant of %s is equal to FALSE' % n) in r.stdout or ('property %s' % n) in r.stdout for n in names)
            rec['result'] = 'mutant rejected' if ok else 'MUTANT ACCEPTED'
            self.mc_results.append(rec)
            if not ok:
                sys.stderr.write(r.stdout[-3000:])
                raise MachineryError('spec mutant %s was not rejected (%s)' % (name, expect_violation))
        else:
            rec['result'] = 'holds'
            self.mc_results.append(rec)
        return r

    def validate(self, module, traces, cfg_extra='', env=None, workers=None, chunk=None,
                 timeout=3000, heap='8g', max_bytes=6000000):
        """Pipeline B. traces: list of dict records. Returns list of verdict tuples
        (clause, rest...) aligned with traces. The TLC spec must print <<"VERDICT", tid, clause, ...>>.
        Every TLC worker deserialises the trace file for itself (measured: 28 MB with 16 workers
        took 20 s and 8 GB, 4.5 s with one), so batches are cut at ~max_bytes of JSON and the
        worker count is lowered for big batches."""
        if not traces:
            return []
        out = [None] * len(traces)
        enc = [json.dumps(t, separators=(',', ':')) for t in traces]
        base = 0
        while base < len(traces):
            size = 0
            end = base
            while end < len(traces) and (end == base or (size + len(enc[end]) <= max_bytes and (not chunk or end - base < chunk))):
                size += len(enc[end]) + 1
                end += 1
            tf = os.path.join(self.tmp, 'traces_%d.json' % len(self.tlc_runs))
            with open(tf, 'w') as f:
                f.write('[' + ','.join(enc[base:end]) + ']')
            w = workers or (16 if size < 1500000 else 8 if size < 4000000 else 4)
            cfg = ('SPECIFICATION Spec\nCONSTRAINT Report\nCHECK_DEADLOCK FALSE\n' + cfg_extra)
            e = {'TRACE_FILE': tf}
            if env:
                e.update(env)
            r = self.tlc(module, cfg, env=e, workers=w, timeout=timeout, heap=heap)
            os.unlink(tf)
            for t in r.tuples:
                if t and t[0] == 'VERDICT':
                    tid = t[1]
                    if out[base + tid - 1] is not None and out[base + tid - 1] != t[2:]:
                        raise MachineryError('two verdicts for trace %d' % tid)
                    out[base + tid - 1] = t[2:]
            missing = [i for i in range(base, end) if out[i] is None]
            if missing:
                sys.stderr.write(r.stdout[-3000:])
                raise MachineryError('%s: no verdict for %d traces (first %d)' % (module, len(missing), missing[0]))
            base = end
        self.traces += len(traces)
        for v in out:
            self.clauses[v[0]] = self.clauses.get(v[0], 0) + 1
        return out

    # ------------------------------------------------------------ verdicts
    def sample(self, s, limit=8):
        if len(self.samples) < limit:
            self.samples.append(s)

    def canary(self, rejected, what=''):
        self.canaries_total += 1
        if rejected:
            self.canaries_rejected += 1
        else:
            raise MachineryError('canary accepted (binding lost): %s' % what)

    def drift(self, what):
        if len(self.model_drift) < 20:
            self.model_drift.append(what)
        else:
            self.notes['model_drift_more'] = self.notes.get('model_drift_more', 0) + 1

    def violation(self, signature, what, replay_obj):
        """Report a failed Layer P clause. Known findings (by exact signature) are counted,
        anything else becomes a VIOLATION line with a replay file."""
        sig = '%s/%s' % (self.pid, signature)
        kf = self.findings.get(sig)
        if kf is None:
            for e in self.findings.values():
                if e.get('pattern') and e.get('property') == self.pid and re.fullmatch(e['pattern'], sig):
                    kf = e
                    break
        if kf is not None and kf.get('status') == 'known':
            key = kf['signature']
            if key not in self.known_hits:
                self.known_hits[key] = {'count': 0, 'what': kf.get('what', what), 'example': replay_obj}
            self.known_hits[key]['count'] += 1
            return False
        for v in self.violations:
            if v['signature'] == sig:
                v['count'] += 1
                return True
        d = os.path.join(VERIF, 'replays', self.pid)
        os.makedirs(d, exist_ok=True)
        self._replay_n += 1
        safe = re.sub(r'[^A-Za-z0-9_.-]+', '_', signature)[:80]
        path = os.path.join(d, '%s_%s_%d.json' % (self.tier, safe, self._replay_n))
        with open(path, 'w') as f:
            json.dump({'property': self.pid, 'signature': sig, 'what': what, 'replay': replay_obj},
                      f, indent=1, default=_json_default)
        self.violations.append({'signature': sig, 'what': what, 'replay': path, 'count': 1})
        return True

    # ------------------------------------------------------------- finish
    def finish(self, level='model_checking'):
        wall = time.time() - self.t0
        for sig, h in sorted(self.known_hits.items()):
            print('KNOWN-FINDING: property=%s %s [%s] (%d cases this run)' % (self.pid, h['what'], sig, h['count']))
        for v in self.violations:
            print('VIOLATION property=%s replay=%s' % (self.pid, v['replay']))
            print('  signature=%s cases=%d: %s' % (v['signature'], v['count'], v['what']))
        for d in self.model_drift:
            print('MODEL-DRIFT: %s' % d)
        cov = {
            'states': max(self.states, 1),
            'transitions': max(self.transitions, 1),
            'traces_validated_against_impl': self.traces,
            'samples': self.samples or [{'note': 'no sample recorded'}],
            'evaluations': max(self.evaluations, self.traces, 1),
            'distinct_nontrivial': self.nontrivial,
            'rule': self.rule,
            'exhaustive': self.exhaustive,
            'out_of_domain': self.out_of_domain,
            'undecided': self.undecided,
            'model_drift': len(self.model_drift) + self.notes.get('model_drift_more', 0),
            'model_drift_examples': self.model_drift[:5],
            'canaries_rejected': self.canaries_rejected,
            'canaries_total': self.canaries_total,
            'verdict_clauses': self.clauses,
            'spec_model_checking': self.mc_results,
            'known_findings_hit': {k: v['count'] for k, v in self.known_hits.items()},
            'tlc_cmds': self.tlc_runs[:40],
            'tlc_runs': len(self.tlc_runs),
        }
        cov.update(self.notes)
        ev = {
            'property_id': self.pid,
            'tier': self.tier,
            'seed': self.seed,
            'level': level,
            'coverage': cov,
            'assumptions': self.assumptions,
            'wall_s': round(wall, 2),
            'violations': len(self.violations),
        }
        if not self.replay and not os.environ.get('VERIF_NO_EVIDENCE'):
            os.makedirs(os.path.join(VERIF, 'evidence'), exist_ok=True)
            with open(os.path.join(VERIF, 'evidence', self.pid + '.json'), 'w') as f:
                json.dump(ev, f, indent=1, default=_json_default)
        print('%s %s: %d TLC runs, %d states, %d traces/behaviours against the implementation, '
              '%d out of domain, %d known-finding signatures, %d violations, %.1fs' % (
                  self.pid, self.tier, len(self.tlc_runs), self.states, self.traces,
                  self.out_of_domain, len(self.known_hits), len(self.violations), wall))
        shutil.rmtree(self.tmp, ignore_errors=True)
        return 1 if self.violations else 0

    def cleanup(self):
        shutil.rmtree(self.tmp, ignore_errors=True)


def _json_default(o):
    if isinstance(o, (bytes, bytearray)):
        return o.decode('latin1')
    if isinstance(o, set):
        return sorted(o)
    return repr(o)


def load_findings():
    p = os.path.join(VERIF, 'known_findings.json')
    out = {}
    if os.path.exists(p):
        with open(p) as f:
            data = json.load(f)
        for e in data.get('findings', []):
            out[e['signature']] = e
    return out


class _Null:
    def write(self, s):
        return len(s)

    def flush(self):
        pass


def quiet_picotool():
    """picotool's util.error / util.write go to streams captured at import time; silence them."""
    try:
        from pico8 import util
        util._error_stream = _Null()
        util._write_stream = _Null()
    except Exception:
        pass


def raised_below_code_under_test(tb):
    """the exception came out of a call into picotool: below the last harness frame of the traceback there is a frame of the
    tree under test (the raise itself may sit in a library picotool calls, e.g. the PNG reader)"""
    root = os.path.abspath(REPO) + os.sep
    mine = os.path.abspath(VERIF) + os.sep
    last_harness = max([i for i, f in enumerate(tb) if os.path.abspath(f.filename).startswith(mine)] or [-1])
    return any(os.path.abspath(f.filename).startswith(root) for f in tb[last_harness + 1:])


class WorkerError(Exception):
    """an uncaught exception inside a parmap worker; in_repo = it was raised by the code under test"""

    def __init__(self, etype, msg, tb_text, in_repo, where):
        super().__init__('%s: %s' % (etype, msg))
        self.etype, self.msg, self.tb_text, self.in_repo, self.where = etype, msg, tb_text, in_repo, where


class _Guard:
    def __init__(self, fn):
        self.fn = fn

    def __call__(self, x):
        try:
            return self.fn(x)
        except MachineryError:
            raise
        except Exception as e:  # noqa
            import traceback
            tb = traceback.extract_tb(e.__traceback__)
            root = os.path.abspath(REPO) + os.sep
            inner = [f for f in tb if os.path.abspath(f.filename).startswith(root)]
            in_repo = raised_below_code_under_test(tb)
            where = ('%s:%s' % (os.path.basename(inner[-1].filename), inner[-1].name)) if inner else ''
            return ('__worker_exception__', type(e).__name__, str(e)[:200], traceback.format_exc()[-3000:], in_repo, where)


def parmap(fn, items, procs=16, chunksize=None, min_parallel=64):
    """Fork-based parallel map for pure functions of picklable arguments."""
    import multiprocessing as mp
    if len(items) < min_parallel or procs <= 1:
        return [fn(x) for x in items]
    ctx = mp.get_context('fork')
    with ctx.Pool(procs) as pool:
        res = pool.map(_Guard(fn), items, chunksize or max(1, len(items) // (procs * 8)))
    for r in res:
        if isinstance(r, tuple) and len(r) == 6 and r[0] == '__worker_exception__':
            raise WorkerError(r[1], r[2], r[3], r[4], r[5])
    return res
