"""Shared generator of dialect programs: GenProg.tla behaviours (TLC) rendered to bytes.

A behaviour is {'toks': [...], 'deriv': [...]}; each real token carries its terminal `t`, concrete
spelling `w`, block depth `d`, chain of enclosing line scopes `s` (innermost first) and the
spec-computed flag `sep` (must be separated from the previous token). "SB" entries mark statement
boundaries (optional `;`, free layout).
"""
import json

from . import core

CFG = '''SPECIFICATION Spec
CONSTANTS MaxToks = %d
MaxDeriv = %d
MaxDepth = %d
Mode = "%s"
CONSTRAINT Emit
CHECK_DEADLOCK FALSE
'''

LAYOUTS = ('tight', 'spaced', 'lines', 'comments', 'semis')

_cache = {}


def generate(ctx, mode='all', max_toks=6, max_depth=3, simulate=None, sim_depth=400, max_deriv=None):
    """Returns the list of complete behaviours TLC printed."""
    key = (mode, max_toks, max_depth, simulate, ctx.seed)
    if key in _cache:
        return _cache[key]
    cfg = CFG % (max_toks, max_deriv or (max_toks * 12 + 20), max_depth, mode)
    if simulate:
        r = ctx.tlc('GenProg', cfg, simulate='num=%d' % simulate, depth=sim_depth, workers=1,
                    name='GenProg_sim_%s_%d' % (mode, max_toks), timeout=600)
    else:
        r = ctx.tlc('GenProg', cfg, name='GenProg_%s_%d' % (mode, max_toks))
    behs = r.jsons
    # de-duplicate simulation output (a finished walk may be printed more than once)
    if simulate:
        seen = set()
        out = []
        for b in behs:
            k = json.dumps(b, sort_keys=True)
            if k not in seen:
                seen.add(k)
                out.append(b)
        behs = out
    _cache[key] = behs
    return behs


def real_tokens(beh):
    return [t for t in beh['toks'] if t['t'] != 'SB']


def render(beh, layout='spaced', rnd=None, final_newline=True, crlf=False, info=None, respell=None):
    """Concrete bytes for a behaviour, or None when the behaviour cannot be laid out
    (statement after a nested short-if inside the outer one; statement starting with `(`
    directly inside a short-if)."""
    toks = beh['toks']
    if respell:
        # same derivation, other spellings within each terminal class (the generator rotates spellings by
        # position, so two adjacent operators never get the same spelling: these variants supply the
        # gluing-prone repetitions `- -x`, `a - -b`, `x .. .5`, `1. ..`); only for layouts that separate all tokens
        assert layout in ('spaced', 'lines', 'semis', 'comments')
        toks = [dict(t) for t in toks]
        n = 0
        prev_t = None
        for t in toks:
            n += 1
            if respell == 'minus' and t['t'] in ('unop', 'binop'):
                t['w'] = [45]
            elif respell == 'dots':
                if t['t'] == 'binop':
                    t['w'] = [46, 46]
                elif t['t'] == 'Number':
                    t['w'] = [46, 53] if n % 2 else [49, 46]
            elif respell == 'slash' and t['t'] == 'binop':
                # `/` directly before a unary minus (a/-b: no token of the dialect starts with /-), also in the tight layout
                t['w'] = [47]
            elif respell == 'slash' and t['t'] == 'unop' and prev_t is not None and prev_t['t'] == 'binop':
                t['w'] = [45]
            elif respell == 'tilde' and t['t'] in ('unop',):
                t['w'] = [126]
            elif respell == 'tilde' and t['t'] == 'binop':
                t['w'] = [126, 61] if n % 2 else [60]
            if t['t'] != 'SB':
                prev_t = t
    out = []
    prev = None
    sb_pending = False
    line_has_comment = False
    seen_scopes = set()
    body_start = False
    nsig = 0
    spans = {}

    def note(tok):
        for s in tok['s']:
            a, b = spans.get(s, (nsig, nsig))
            spans[s] = (min(a, nsig), max(b, nsig))
    for idx, t in enumerate(toks):
        if t['t'] == 'SB':
            sb_pending = True
            # the first statement boundary inside a line scope is the start of the short-if body
            body_start = bool(t['s']) and t['s'][0] not in seen_scopes
            if t['s']:
                seen_scopes.add(t['s'][0])
            continue
        w = bytes(t['w'])
        if prev is None:
            if layout == 'lines' and rnd is not None:
                out.append(b' ' * rnd.randrange(4))
            out.append(w)
            nsig += 1
            note(t)
            prev = t
            sb_pending = False
            continue
        ps, ts = prev['s'], t['s']
        common = [x for x in ts if x in ps]
        ended = [x for x in ps if x not in ts]
        if ended and common:
            return None
        no_nl = bool(common)
        must_nl = bool(ended) or line_has_comment
        must_semi = sb_pending and w == b'(' and not no_nl
        if sb_pending and w == b'(' and no_nl:
            return None
        if sb_pending and body_start and w == b'do':
            return None     # `if (c) do` is picotool's deliberate loophole form, outside the dialect
        gap = b''
        nsemi = 0
        if must_semi or (layout == 'semis' and sb_pending):
            gap += b';'
            nsemi = 1
        if must_nl:
            # (a `;` written here belongs to the next line, not to the line scope that just ended)
            gap = b'\n' + gap
            line_has_comment = False
        elif layout == 'tight':
            if sb_pending and not no_nl:
                gap += b'\n'
            elif t['sep'] and not gap:
                gap += b' '
        elif layout in ('spaced', 'semis'):
            if sb_pending and not no_nl:
                gap += b'\n'
            else:
                gap += b' '
        elif layout == 'lines':
            if no_nl:
                gap += b' '
            else:
                gap += b'\n' + (b' ' * rnd.randrange(5) if rnd else b'') + (b'\t' if rnd and rnd.randrange(4) == 0 else b'')
        elif layout == 'comments':
            c = rnd.randrange(6) if rnd else 0
            if c == 0 and not no_nl:
                gap += (b' --c' + bytes([rnd.randrange(33, 127)]) + b'\n') if rnd.randrange(5) else rnd.choice((b' --\n', b' //\n'))
            elif c == 1 and not no_nl:
                gap += b' //' + bytes([rnd.randrange(128, 256)]) + b'\n'
            elif c == 2:
                gap += b' --[[b]]'
                if t['sep'] or rnd.randrange(2):
                    gap += b' '
            elif c == 3 and not no_nl:
                gap += b'\n\n'
            elif c == 4 and not no_nl:
                gap += b' --[[m\nm]] '
            else:
                gap += b' '
        if crlf:
            gap = gap.replace(b'\n', b'\r\n')
        out.append(gap)
        out.append(w)
        nsig += nsemi + 1
        note(t)
        prev = t
        sb_pending = False
    if info is not None:
        info['scopes'] = [list(v) for k, v in sorted(spans.items())]
        info['nsig'] = nsig
    src = b''.join(out)
    if final_newline and src:
        src += b'\r\n' if crlf else b'\n'
    return src


def scopes_of(beh):
    """[(first, last)] 1-based indices over real tokens of each line scope."""
    spans = {}
    n = 0
    for t in beh['toks']:
        if t['t'] == 'SB':
            continue
        n += 1
        for s in t['s']:
            a, b = spans.get(s, (n, n))
            spans[s] = (min(a, n), max(b, n))
    return [list(v) for k, v in sorted(spans.items())]


def program_sources(ctx, rnd, n, layouts=('tight', 'spaced', 'lines', 'comments', 'semis')):
    """n rendered programs (name, src) drawn from exhaustive <= 6 tokens plus deep simulated ones."""
    behs = generate(ctx, 'all', 6)
    deep = generate(ctx, 'all', 40, max_depth=4, simulate=max(50, n // 2))
    out = []
    pool = [b for b in behs if real_tokens(b)]
    picks = [pool[rnd.randrange(len(pool))] for _ in range(n // 2)] + deep[:n - n // 2]
    for k, b in enumerate(picks):
        lay = layouts[k % len(layouts)]
        src = render(b, lay, rnd, crlf=(k % 7 == 3))
        if src:
            out.append(('gen%d/%s' % (k, lay), src))
    # a few wide programs (hundreds of tokens, dozens of names)
    for k, b in enumerate(wide_set(ctx, max(4, n // 25))[1]):
        lay = layouts[k % len(layouts)]
        src = render(b, lay, rnd, crlf=(k % 3 == 1))
        if src:
            out.append(('wide%d/%s' % (k, lay), src))
    return out


# ---------------------------------------------------------------------------------------------
# wide programs: concatenations of generated behaviours with the identifiers re-drawn from a large
# pool (dozens of distinct names, one-letter / generated-looking names first seen late), so that
# the populations also contain programs with hundreds of tokens and more names than there are
# one-letter short names. Token structure, depths, line scopes and the derivation all come from
# the generated parts (a chunk's derivation is Chunk St.. StEnd: parts without a top-level return
# concatenate by dropping the StEnd / Chunk at the seam).
_WORDS = [b'alpha', b'beta', b'gamma', b'delta', b'epsilon', b'zeta', b'eta', b'theta', b'iota', b'kappa', b'lambda', b'mu', b'nu', b'xi',
          b'omicron', b'pi', b'rho', b'sigma', b'tau', b'upsilon', b'phi', b'chi', b'psi', b'omega', b'north', b'south', b'east', b'west',
          b'player', b'enemy', b'score', b'lives', b'level', b'timer', b'speed', b'shots', b'walls', b'stars', b'cam_x', b'cam_y', b'_dx', b'_dy',
          b'Alpha', b'BETA', b'x1', b'x2', b'y_1', b'\x8balpha', b'\xefx', b'\xbbshot', b'\xbf', b'\x80', b'\xffz', b'e9', b'E', b'f0', b'b1']


def name_pool(rnd, size):
    shorts = [bytes([c]) for c in b'abcdefghijklmnopqrstuvwxyz']
    twos = [bytes([a, b]) for a in b'abc' for b in b'abcdz']
    longs = list(_WORDS)
    rnd.shuffle(shorts)
    rnd.shuffle(twos)
    rnd.shuffle(longs)
    nl = min(len(longs), max(size * 2 // 3, 1))
    style = rnd.randrange(3)
    if style == 0:      # long names first, short ones first seen late
        order = longs[:nl] + shorts[:max(size - nl, 3)] + twos[:4]
    elif style == 1:    # mixed
        order = longs[:nl] + shorts[:max(size - nl, 3)] + twos[:4]
        rnd.shuffle(order)
    else:               # short ones first
        order = shorts[:max(size - nl, 3)] + twos[:4] + longs[:nl]
    return order


def wide_set(ctx, n):
    """cached ('wide', behaviours) set for the program-level drivers"""
    key = ('wide', n, ctx.seed)
    if key not in _cache:
        import random
        _cache[key] = wide(ctx, random.Random(ctx.seed * 7919 + n), n)
    return ('wide', _cache[key])


def wide(ctx, rnd, n, min_toks=120, max_toks=420, pool_sizes=(12, 30, 45, 70), sources=None):
    """n wide behaviours {'toks', 'deriv', 'names'}"""
    parts = sources or [b for b in generate(ctx, 'all', 5) + generate(ctx, 'shortif', 13) if real_tokens(b)]
    parts = [b for b in parts if b['deriv'] and b['deriv'][-1] == 'StEnd' and b['deriv'][0] == 'Chunk'
             and not any(t['t'] in ('Label', 'k:goto', 'k:return') for t in b['toks']) and render(b, 'spaced') is not None]
    out = []
    for i in range(n):
        target = rnd.randrange(min_toks, max_toks)
        order = name_pool(rnd, pool_sizes[i % len(pool_sizes)])
        seen = []
        nxt = 0
        toks = []
        deriv = ['Chunk']
        nreal = 0
        k = 0
        while nreal < target or (nxt < len(order) and nreal < 3 * max_toks):
            b = parts[rnd.randrange(len(parts))]
            k += 1
            for t in b['toks']:
                t = dict(t)
                t['s'] = [k * 1000 + x for x in t['s']]
                if t['t'] == 'Name':
                    if nxt < len(order) and (not seen or rnd.randrange(2) == 0):
                        w = order[nxt]
                        nxt += 1
                        seen.append(w)
                    else:
                        w = seen[rnd.randrange(len(seen))]
                    t['w'] = list(w)
                if t['t'] != 'SB':
                    nreal += 1
                toks.append(t)
            deriv += b['deriv'][1:-1]
        deriv.append('StEnd')
        out.append({'toks': toks, 'deriv': deriv, 'names': len(seen)})
    return out
