"""Shared generator of dialect programs (GenSyn/GenTight behaviours rendered to bytes)."""


def program_sources(ctx, rnd, n):
    return []
