"""Independent PNG decoder (stdlib only) used by C04/C16."""
import zlib, struct
def decode_png(data):
    if data[:8] != b'\x89PNG\r\n\x1a\n': raise ValueError('signature')
    pos = 8; idat = b''; ihdr = None; seen_end = False
    while pos < len(data):
        if pos + 8 > len(data): raise ValueError('truncated chunk header')
        ln, = struct.unpack('>I', data[pos:pos+4]); typ = data[pos+4:pos+8]
        body = data[pos+8:pos+8+ln]
        if len(body) != ln or pos + 12 + ln > len(data): raise ValueError('truncated chunk')
        crc, = struct.unpack('>I', data[pos+8+ln:pos+12+ln])
        if zlib.crc32(typ + body) & 0xffffffff != crc: raise ValueError('crc ' + typ.decode('latin1'))
        if typ == b'IHDR': ihdr = struct.unpack('>IIBBBBB', body)
        elif typ == b'IDAT': idat += body
        elif typ == b'IEND': seen_end = True; break
        pos += 12 + ln
    if ihdr is None or not seen_end: raise ValueError('missing IHDR/IEND')
    w, h, depth, ctype, comp, flt, interlace = ihdr
    if depth != 8 or interlace != 0 or comp != 0 or flt != 0: raise ValueError('unsupported')
    ch = {0: 1, 2: 3, 4: 2, 6: 4}.get(ctype)
    if ch is None: raise ValueError('colour type')
    raw = zlib.decompress(idat); stride = w * ch
    if len(raw) != h * (stride + 1): raise ValueError('size')
    rows = []; prev = bytes(stride)
    for y in range(h):
        ft = raw[y*(stride+1)]; line = bytearray(raw[y*(stride+1)+1:(y+1)*(stride+1)])
        for i in range(stride):
            a = line[i-ch] if i >= ch else 0; b = prev[i]; c = prev[i-ch] if i >= ch else 0
            if ft == 1: line[i] = (line[i] + a) & 255
            elif ft == 2: line[i] = (line[i] + b) & 255
            elif ft == 3: line[i] = (line[i] + ((a + b) >> 1)) & 255
            elif ft == 4:
                p = a + b - c; pa = abs(p-a); pb = abs(p-b); pc = abs(p-c)
                line[i] = (line[i] + (a if (pa <= pb and pa <= pc) else (b if pb <= pc else c))) & 255
            elif ft != 0: raise ValueError('filter')
        rows.append(bytes(line)); prev = line
    return w, h, ch, rows


def encode_png(w, h, rows):
    """Minimal RGBA PNG writer (filter 0, one IDAT) for making label sources."""
    def chunk(typ, body):
        return struct.pack('>I', len(body)) + typ + body + struct.pack('>I', zlib.crc32(typ + body) & 0xffffffff)
    raw = b''.join(b'\x00' + bytes(r) for r in rows)
    return (b'\x89PNG\r\n\x1a\n' + chunk(b'IHDR', struct.pack('>IIBBBBB', w, h, 8, 6, 0, 0, 0)) +
            chunk(b'IDAT', zlib.compress(raw, 6)) + chunk(b'IEND', b''))
