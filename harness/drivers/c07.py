"""C07 - the lexer agrees with the lexical grammar (P8Lex).

Pipeline A: TLC (GenLex) enumerates all strings up to a bound over class alphabets, and all
pairs / triples of token spelling classes, and prints the dictated token list; the real lexer is
run on each string (single chunk and per-line chunks) and compared.
Pipeline B: token lists recorded from the real lexer on longer sources (fixtures, layout
mutations, generated programs) are judged by TLC (TraceLex).
"""
import glob
import json
import multiprocessing as mp
import os
import random
import re
from fractions import Fraction

from .. import core, lexref

GEN_CFG = '''SPECIFICATION Spec
CONSTANTS Pieces <- %s
MaxPieces = %d
CONSTRAINT Emit
CHECK_DEADLOCK FALSE
'''


def _work(lines):
    out = {'ok': 0, 'ood': 0, 'viol': []}
    for line in lines:
        rec = json.loads(json.loads(line))
        st, info = lexref.check_record(rec)
        if st == 'viol':
            out['viol'].append((rec['s'], info))
        else:
            out[st] += 1
    return out


def run_gen(ctx, pieces, maxp, label):
    pool = mp.get_context('fork').Pool(16)
    pend = []
    r = ctx.tlc('GenLex', GEN_CFG % (pieces, maxp), name='GenLex_' + label,
                on_json_batch=lambda b: pend.append(pool.apply_async(_work, (b,))))
    tot = {'ok': 0, 'ood': 0}
    for p in pend:
        o = p.get()
        tot['ok'] += o['ok']
        tot['ood'] += o['ood']
        for s, (chunking, clause, sig, detail) in o['viol']:
            tot['ok'] += 0
            ctx.violation(sig, 'lexer disagrees with the lexical grammar (%s, %s): %s' % (clause, chunking, detail),
                          {'kind': 'lex', 'src': s, 'chunking': chunking})
            ctx.notes.setdefault('violating_inputs', 0)
            ctx.notes['violating_inputs'] += 1
    pool.close()
    pool.join()
    n = tot['ok'] + tot['ood'] + ctx.notes.get('violating_inputs', 0)
    ctx.traces += tot['ok']
    ctx.evaluations += r.distinct
    ctx.nontrivial += tot['ok']
    ctx.out_of_domain += tot['ood']
    ctx.notes.setdefault('enumerations', []).append(
        {'pieces': pieces, 'max_pieces': maxp, 'strings': r.distinct, 'in_domain_agree': tot['ok'], 'out_of_domain': tot['ood']})
    if r.distinct < 10 or n < r.distinct - 1:
        raise core.MachineryError('GenLex %s: %d states but %d records' % (label, r.distinct, n))


def impl_trace(src, chunks, toks=None):
    err = None
    if toks is None:
        toks, err = lexref.lex_impl(chunks)
    if toks is None:
        return None, err
    ls = lexref.line_starts(src)
    out = []
    for t in toks:
        k = lexref.kind_of(t)
        ln, ch = t._lineno, t._charno
        start = ls[ln] + ch if (ln is not None and 0 <= ln < len(ls)) else -1
        rec = {'k': k, 'start': start, 'line': ln if ln is not None else -1, 'col': ch if ch is not None else -1,
               'v': [], 'nv': []}
        if k == 'str':
            rec['v'] = list(t.value)
        if k == 'num':
            try:
                f = Fraction(t.value)
                if f.numerator < 46340 and f.denominator < 46340:
                    rec['nv'] = [f.numerator, f.denominator]
            except Exception:
                rec['nv'] = [0, 0]
        out.append(rec)
    return out, None


def layout_mutations(src, rnd, n):
    """Layout-only rewrites of a lexable source: CRLF line ends, tabs, extra spaces at line
    starts, blank lines, trailing comments."""
    outs = []
    lines = src.split(b'\n')
    for _ in range(n):
        m = rnd.randrange(5)
        if m == 0:
            outs.append(b'\r\n'.join(lines))
        elif m == 1:
            outs.append(b'\n'.join((b'\t' * rnd.randrange(3)) + l for l in lines))
        elif m == 2:
            outs.append(b'\n'.join(l + (b' ' * rnd.randrange(3)) for l in lines))
        elif m == 3:
            k = rnd.randrange(len(lines))
            outs.append(b'\n'.join(lines[:k] + [b''] * rnd.randrange(1, 3) + lines[k:]))
        else:
            k = rnd.randrange(len(lines))
            outs.append(b'\n'.join(lines[:k] + [b'// c' + bytes([rnd.randrange(128, 256)])] + lines[k:]))
    return outs


def fixture_sources():
    out = []
    for p in sorted(glob.glob(os.path.join(core.VERIF, 'fixtures', 'lua', '*.lua'))):
        out.append((os.path.basename(p), open(p, 'rb').read()))
    return out


def run_traces(ctx, sources):
    traces = []
    meta = []
    for name, src in sources:
        for cname, chunks in lexref.chunkings(src).items():
            toks, err = impl_trace(src, chunks)
            if toks is None:
                # judged by TLC as an empty token list: accepted only if the reference rejects too
                toks = []
            traces.append({'src': list(src), 'toks': toks})
            meta.append((name, cname, src, err))
    # canary: corrupt one recorded field of the first trace
    can = json.loads(json.dumps(traces[0]))
    idx = next(i for i, t in enumerate(can['toks']) if t['k'] == 'name')
    can['toks'][idx]['k'] = 'kw'
    can2 = json.loads(json.dumps(traces[0]))
    can2['toks'][len(can2['toks']) // 2]['col'] += 1
    verdicts = ctx.validate('TraceLex', traces + [can, can2])
    ctx.traces -= 2
    if verdicts[0][0] == 'ok':      # (the canaries are copies of trace 0; if that one is rejected the alarm is raised anyway)
        ctx.canary(verdicts[-2][0] == 'kind', 'token kind corrupted')
        ctx.canary(verdicts[-1][0] in ('linecol', 'extent'), 'column corrupted')
    for (name, cname, src, err), v in zip(meta, verdicts):
        if v[0] == 'ok':
            ctx.nontrivial += 1
        elif v[0] == 'ood':
            ctx.out_of_domain += 1
        else:
            n, i = v[1], v[2]
            tokspell = src[max(i - 1, 0):i + 11]
            sig = '%s/trace:%s' % (v[0], lexref.shape(tokspell))
            ctx.violation(sig, 'lexer token list rejected by TraceLex (%s) at token %d offset %d of %s (%s)%s' % (
                v[0], n, i, name, cname, ('; impl error: ' + err) if err else ''),
                {'kind': 'lextrace', 'src': list(src), 'chunking': cname})
    ctx.sample({'trace': meta[0][0], 'chunking': meta[0][1], 'tokens': len(traces[0]['toks']), 'verdict': verdicts[0][0]})


def _file_tokens(item):
    """the token list as a user of the library gets it for a cart FILE: the code goes through the .p8 reader (per-line
    chunks) or the .p8.png reader (one chunk) before it reaches the lexer"""
    name, src, how, tmp = item
    import tempfile
    import shutil
    from pico8.game import file as gfile
    from .. import cartio
    core.quiet_picotool()
    d = tempfile.mkdtemp(prefix='c07f_', dir=tmp)
    try:
        if how == 'p8':
            fp = os.path.join(d, 'c.p8')
            with open(fp, 'wb') as f:
                f.write(b'pico-8 cartridge // http://www.pico-8.com\nversion 8\n__lua__\n' + src + b'__gfx__\n')
        else:
            fp = os.path.join(d, 'c.p8.png')
            gfile.to_file(cartio.make_game(cartio.memory((0, 0), {}), src, None, 8), fp)
        g = gfile.from_file(fp)
        if how == 'png' and cartio.game_code(g) == src + b'\n':
            src = src + b'\n'          # (a raw-stored code gains a final newline when read: the normalisation C04 allows)
        toks, err = impl_trace(src, None, toks=g.lua.tokens)
    except Exception as e:  # noqa
        toks, err = None, '%s: %s' % (type(e).__name__, str(e)[:60])
    shutil.rmtree(d, ignore_errors=True)
    return toks, err, src


def file_paths(ctx, sources):
    items = []
    for name, src in sources:
        if not src.endswith(b'\n') or any(c >= 128 or (c < 32 and c not in (9, 10)) for c in src) or re.search(rb'(^|\n)__\w+__\n', src):
            continue            # (hand-written .p8 text: ASCII sources only; a final newline so that the section text is the source)
        items.append((name, src, 'p8', ctx.tmp))
        if len(src) < 3000:
            items.append((name, src, 'png', ctx.tmp))
    res = core.parmap(_file_tokens, items, procs=16, min_parallel=8)
    traces, meta = [], []
    for (name, src0, how, _), (toks, err, src) in zip(items, res):
        traces.append({'src': list(src), 'toks': toks or []})
        meta.append((name, how, src, err))
    if not traces:
        return
    verdicts = ctx.validate('TraceLex', traces)
    for (name, how, src, err), v in zip(meta, verdicts):
        ctx.evaluations += 1
        if v[0] == 'ok':
            ctx.nontrivial += 1
        elif v[0] == 'ood':
            ctx.out_of_domain += 1
        else:
            n, i = v[1], v[2]
            ctx.violation('%s/file-%s:%s' % (v[0], how, lexref.shape(src[max(i - 1, 0):i + 11])),
                          'token list of a cart loaded from a .%s file rejected by TraceLex (%s) at token %d offset %d of %s%s' % (
                              'p8' if how == 'p8' else 'p8.png', v[0], n, i, name, ('; error: ' + err) if err else ''),
                          {'kind': 'lextrace', 'src': list(src), 'chunking': how})


def listtokens_cli(ctx, sources):
    """`p8tool listtokens`: the numbered entries are exactly the tokens that are not spaces, comments or line ends (whose
    kinds TraceLex judges above), numbered consecutively from 0"""
    import io
    import tempfile
    from pico8 import tool, util
    from pico8.lua import lexer
    d = tempfile.mkdtemp(prefix='c07l_', dir=ctx.tmp)
    for name, src in sources:
        if any(c >= 128 or (c < 32 and c not in (9, 10)) for c in src) or not src.endswith(b'\n') or re.search(rb'(^|\n)__\w+__\n', src):
            continue
        fp = os.path.join(d, 'c.p8')
        with open(fp, 'wb') as f:
            f.write(b'pico-8 cartridge // http://www.pico-8.com\nversion 8\n__lua__\n' + src + b'__gfx__\n')
        toks, err = lexref.lex_impl([src])
        if toks is None:
            continue
        nsig = sum(1 for t in toks if not isinstance(t, (lexer.TokSpace, lexer.TokComment, lexer.TokNewline)))
        buf = io.StringIO()
        old = util._write_stream
        util._write_stream = buf
        try:
            rc = tool.main(['listtokens', fp])
        except SystemExit as e:
            rc = e.code
        except Exception as e:  # noqa
            rc = 'exception %s' % type(e).__name__
        finally:
            util._write_stream = old
        nums = [int(x) for x in re.findall(r'<(\d+):', buf.getvalue())]
        ctx.evaluations += 1
        # (token texts may themselves contain "<12:": only the count of leading-numbered entries in order is compared)
        seq = []
        for n in nums:
            if n == len(seq):
                seq.append(n)
        if rc in (0, None) and len(seq) == nsig:
            ctx.nontrivial += 1
            ctx.traces += 1
        else:
            ctx.violation('listtokens/%s' % ('fails' if rc not in (0, None) else 'numbering'), 'p8tool listtokens for %s (rc %s) numbers %d tokens, the source has %d tokens that are not spaces, comments or line ends' % (
                name, rc, len(seq), nsig), {'kind': 'listtokens', 'src': list(src)})


def run(ctx):
    rnd = random.Random(ctx.seed)
    ctx.rule = ('GenLex: every concatenation of <= N pieces over a class alphabet / the token spelling classes; '
                'a case is non-trivial when the reference lexes it without err/ood (in the dialect); '
                'each is lexed by picotool as one chunk and as per-line chunks. TraceLex: recorded token lists of longer sources.')
    ctx.assumptions = ['P8Lex.tla is the lexical grammar of the dialect (Lua 5.2 manual 3.1 + PICO-8 extensions)',
                       'out of the dialect: levelled long comments, numerals directly followed by a name character, '
                       'unknown escapes, lone CR; a CR before the LF ending a line comment may belong to either token',
                       'bounded alphabets and lengths as listed under enumerations']
    if ctx.quick:
        run_gen(ctx, 'PiecesChars', 4, 'chars4')
        run_gen(ctx, 'PiecesCharsB', 4, 'strchars4')
        run_gen(ctx, 'PiecesStr', 4, 'strpieces4')
        run_gen(ctx, 'PiecesToks', 2, 'tokpairs')
        run_gen(ctx, 'PiecesWords', 2, 'words')
    else:
        run_gen(ctx, 'PiecesWords', 2, 'words')
        run_gen(ctx, 'PiecesChars', 4, 'chars4')
        run_gen(ctx, 'PiecesChars18', 5, 'chars5')
        run_gen(ctx, 'PiecesCharsB', 5, 'strchars5')
        run_gen(ctx, 'PiecesStr', 5, 'strpieces5')
        run_gen(ctx, 'PiecesToks', 2, 'tokpairs')
        run_gen(ctx, 'PiecesToksGlue', 3, 'toktriples')
    ctx.exhaustive = True
    srcs = fixture_sources()
    extra = []
    for name, src in srcs:
        for k, m in enumerate(layout_mutations(src, rnd, 3 if ctx.quick else 12)):
            extra.append(('%s~%d' % (name, k), m))
    from ..progs import program_sources
    gen = program_sources(ctx, rnd, 150 if ctx.quick else 1500)
    run_traces(ctx, srcs + extra + gen)
    ws = [('ws-probe', b's = [[ab  \ncd\t\n]]  \nx = 1\t \n-- c  \n  y = "q"   \n')]
    file_paths(ctx, ws + srcs + gen[:(60 if ctx.quick else 600)])
    listtokens_cli(ctx, ws + srcs + gen[:(20 if ctx.quick else 200)])
    ctx.sample({'gen': 'GenLex', 'example': 'a>>>b', 'expected': [['name', 2], ['sym', 5], ['name', 6]]})


def replay(ctx, path):
    rec = json.load(open(path))['replay']
    src = bytes(rec['src'])
    run_traces(ctx, [('replay', src)])
