"""C14 - build embeds each require()d package once and leaves all code intact.

Require.tla (Layer I: the name-keyed depth-first walk) is model-checked for Once / Closed over
every graph of requires among {main, p, q, sub/p, sub/q}; TLC prints each graph (which files
exist, which names each requires). The harness materialises the files (package bodies: a marker,
generated statements from GenProg, game-loop functions at the start / middle / end, with and
without final newline; require call sites as statement, local initialiser, inside a function
body, call argument, table field, chain head; use_game_loop options), runs
`p8tool build --lua main.lua` and observes the built code.
Judged by TLC: TraceRequire.tla (order-free): each name bound once, every require of main and of
every bound package bound, each binding a file the name resolves to from a requirer's directory,
errors only when some traversal meets an unresolvable require; TraceTokens.tla: each entry holds
its package's tokens minus exactly the top-level game-loop function definitions (unless
use_game_loop), and the output ends with the main program's tokens.
"""
import json
import os
import random
import re
import shutil
import tempfile

from .. import core, progs

GEN = '''SPECIFICATION Spec
CONSTANT MaxReq = %d
INVARIANT Once
INVARIANT Closed
CONSTRAINT Emit
CHECK_DEADLOCK FALSE
'''
SITES = ('stmt', 'local', 'infunc', 'tablefield', 'arg', 'chainhead', 'inif', 'inelse', 'inloop', 'shortif', 'deep')
LOOPS = [b'function _init()\n x=1\nend\n', b'function _update60() end\n', b'function _draw()\n local function _init() end\n cls()\nend\n', b'function _update()\n t=(t or 0)+1\nend\n']


def site(kind, name, opt):
    o = b'' if opt is None else (b', {use_game_loop=%s}' % (b'true' if opt else b'false'))
    call = b'require("' + name.encode() + b'"' + o + b')'
    if opt is None:
        # the ways Lua lets one write a call with one string literal
        n = name.encode()
        call = (call, b"require('" + n + b"')", b'require "' + n + b'"', b'require[[' + n + b']]', b'require [==[' + n + b']==]',
                b'require ( "' + n + b'" )', b"require'" + n + b"'", call)[(hash((kind, name)) & 0xffff) % 8]
    v = re.sub(rb'\W', b'_', name.encode())
    return {'stmt': call + b'\n', 'local': b'local m_' + v + b' = ' + call + b'\n',
            'infunc': b'function use_' + v + b'()\n  return ' + call + b'\nend\n',
            'tablefield': b't_' + v + b' = {' + call + b', 2}\n',
            'arg': b'print(' + call + b')\n',
            'chainhead': call + b'.go()\n',
            'inif': b'if dbg_' + v + b' then ' + call + b' end\n',
            'inelse': b'if dbg_' + v + b' then x=1 elseif y then z=2 else\n  local q = ' + call + b'\nend\n',
            'inloop': b'for i=1,2 do while w_' + v + b' do repeat ' + call + b' until true end end\n',
            'shortif': b'if (dbg_' + v + b') ' + call + b'\n',
            'deep': b'local t_' + v + b' = {a={b=function() do return (' + call + b') end end}}\n'}[kind]


def body_pieces(rnd, fid, reqs, opts, stmts, loops_at, sites, ghost=False):
    """[(text, is_game_loop)] for one file"""
    marker = b'id_' + re.sub(rb'\W', b'_', fid.encode()) + b' = "' + fid.encode() + b'"\n'
    pieces = [(marker, False)]
    for n in reqs:
        pieces.append((site(sites[(hash((fid, n)) & 0xffff) % len(sites)], n, opts.get(n)), False))
    for s in stmts:
        pieces.append((b'do ' + s.rstrip(b'\n') + b' end\n', False))
    if rnd.randrange(2):
        # not game-loop functions (must be kept): members and locals that merely carry such a name
        pieces.append((rnd.choice((b'local m = {}\nfunction m._update() return 1 end\nfunction m._draw(a) end\n', b'local function _init() end\n',
                                   b'obj = {_draw = function() end}\nfunction obj:_init() end\n', b'function _initx() end\nfunction x_draw() end\n')), False))
    for pos in loops_at:
        lp = LOOPS[rnd.randrange(len(LOOPS))]
        if ghost and rnd.randrange(2):
            # a game-loop function that itself requires something (a test harness, say): when the function is stripped,
            # so is its require - the file it names does not exist
            lp = rnd.choice((b'function _init()\n local h = require("ghost")\n h.go()\nend\n', b'function _draw() require "ghost2" end\n'))
        k = {'start': 0, 'middle': max(1, len(pieces) // 2), 'end': len(pieces)}[pos]
        pieces.insert(k, (lp, True))
    return pieces


def _case(item):
    k, graph, seed, tmp, sites, stmts_pool = item
    from pico8 import tool
    from pico8.game import file as gfile
    core.quiet_picotool()
    rnd = random.Random(seed)
    S = tempfile.mkdtemp(prefix='c14_', dir=tmp)
    os.makedirs(os.path.join(S, 'sub'))
    names = sorted({n for f in graph['req'] for n in graph['req'][f]})
    opts = {n: rnd.choice((None, None, True, False)) for n in names}
    files = {}
    for f in graph['exists']:
        loops_at = rnd.choice(([], ['start'], ['middle'], ['end'], ['start', 'end'], ['middle', 'middle']))
        stmts = [stmts_pool[rnd.randrange(len(stmts_pool))] for _ in range(rnd.randrange(0, 3))]
        pieces = body_pieces(rnd, f, graph['req'].get(f, []), opts, stmts, loops_at if f != 'main' else [], sites,
                             ghost=not any(o is True for o in opts.values()))
        text = b''.join(p for p, _ in pieces)
        final_nl = rnd.randrange(3) != 0
        if not final_nl:
            text = text.rstrip(b'\n')
        files[f] = {'pieces': pieces, 'text': text}
        with open(os.path.join(S, f + '.lua'), 'wb') as fh:
            fh.write(text)
    out = os.path.join(S, 'out.p8')
    rc, err = None, ''
    try:
        rc = tool.main(['--quiet', 'build', out, '--lua', os.path.join(S, 'main.lua')])
    except SystemExit as e:
        rc = e.code
    except Exception as e:  # noqa
        import traceback
        fr = [x.name for x in traceback.extract_tb(e.__traceback__)][-2:]
        rc, err = 'exception', '%s@%s: %s' % (type(e).__name__, '>'.join(fr), str(e)[:60])
    res = {'k': k, 'rc': rc, 'err': err, 'outcome': 'error', 'bound': [], 'tokens': [], 'problem': None,
           'opts': {n: opts[n] for n in names}, 'loops': {f: [t for t, g in files[f]['pieces'] if g] for f in files}}
    if rc in (0, None) and os.path.exists(out):
        res['outcome'] = 'ok'
        try:
            g = gfile.from_file(out)
            code = b''.join(g.lua.to_lines())
        except Exception as e:  # noqa
            res['problem'] = 'output-does-not-load: %s' % type(e).__name__
            shutil.rmtree(S, ignore_errors=True)
            return res
        heads = list(re.finditer(rb'package\._c\["([^"]*)"\]=function\(\)\n', code))
        loader = code.find(b'function require(p)')
        main_text = files['main']['text']
        if not heads:
            # no package table: the whole output must be the main program
            res['tokens'].append({'what': 'main', 'src': list(main_text), 'out': list(code), 'renameOK': False})
        else:
            if loader < 0:
                res['problem'] = 'no-loader'
            for i, h in enumerate(heads):
                name = h.group(1).decode()
                end = heads[i + 1].start() if i + 1 < len(heads) else loader
                region = code[h.end():end].rstrip()
                if not region.endswith(b'end'):
                    res['problem'] = 'entry-not-closed'
                    continue
                region = region[:-3]
                m = re.search(rb'id_\w+ = "([^"]*)"', region)
                fid = m.group(1).decode() if m else '?'
                res['bound'].append([name, fid])
                if fid in files:
                    keep_loops = opts.get(name) is True
                    kept = b''.join(t for t, gl in files[fid]['pieces'] if keep_loops or not gl)
                    res['tokens'].append({'what': 'entry:' + name, 'src': list(kept), 'out': list(region), 'renameOK': False})
            if loader >= 0:
                tail = code[loader:]
                endl = tail.find(b'\nend\n')
                res['tokens'].append({'what': 'main', 'src': list(main_text), 'out': list(tail[endl + 5:] if endl >= 0 else b''), 'renameOK': False})
    shutil.rmtree(S, ignore_errors=True)
    return res


def run(ctx):
    core.quiet_picotool()
    rnd = random.Random(ctx.seed)
    ctx.rule = ('every graph of requires among {main, p, q, sub/p, sub/q} (which files exist x which names each requires, <= 2 requires in main, <= MaxReq elsewhere) printed by TLC; '
                'sampled graphs are built with generated package bodies; non-trivial = build observed and both acceptors reached a verdict')
    ctx.assumptions = ['default load path; packages are keyed by the require string; the statement fixes neither traversal order nor which of several possible files a name binds to (order-free acceptor)',
                       'the same name carries the same use_game_loop option at all its call sites', 'the loader text itself is not prescribed: only its presence before the main program']
    r = ctx.tlc('Require', GEN % (1 if ctx.quick else 2), name='MC_Gen_Require', timeout=1200)
    seen, graphs = set(), []
    for x in r.jsons:
        key = json.dumps([x['exists'], x['req']], sort_keys=True)
        if key not in seen:
            seen.add(key)
            graphs.append(x)
    ctx.mc_results.append({'name': 'MC_Require', 'states': r.distinct, 'result': 'Once and Closed hold on the modelled walk'})
    ctx.notes['graphs_enumerated'] = len(graphs)
    nontrivial = [g for g in graphs if g['req'].get('main')]
    pick = rnd.sample(nontrivial, min(len(nontrivial), 400 if ctx.quick else 4000))
    behs = [b for b in progs.generate(ctx, 'all', 5) if progs.real_tokens(b) and 'StRet' not in b['deriv'] and 'StBreak' not in b['deriv']
            and 'St1Ret' not in b['deriv'] and 'St1Break' not in b['deriv']]
    pool = []
    for b in behs[::9]:
        s = progs.render(b, 'spaced', rnd)
        if s and b'\n' not in s.rstrip(b'\n'):
            pool.append(s)
    site_sets = (('stmt', 'local', 'infunc', 'tablefield'), SITES)
    items = [(k, g, ctx.seed * 31 + k, ctx.tmp, site_sets[k % 2], pool) for k, g in enumerate(pick)]
    res = core.parmap(_case, items, procs=16)
    ctx.evaluations += len(items)
    rtraces, ttraces, tmeta = [], [], []
    for it, o in zip(items, res):
        g = it[1]
        rtraces.append({'exists': g['exists'], 'req': {f: g['req'][f] for f in g['req']}, 'outcome': o['outcome'], 'bound': o['bound']})
        for t in o['tokens']:
            ttraces.append({'src': t['src'], 'out': t['out'], 'renameOK': False})
            tmeta.append((it, o, t['what']))
    # canaries
    cg = {'exists': ['main', 'p'], 'req': {'main': ['p'], 'p': [], 'q': [], 'sub/p': [], 'sub/q': []}}
    cans = [dict(cg, outcome='ok', bound=[['p', 'p'], ['p', 'p']]), dict(cg, outcome='ok', bound=[]), dict(cg, outcome='ok', bound=[['p', 'q']]), dict(cg, outcome='error', bound=[]),
            dict(cg, outcome='ok', bound=[['p', 'p']])]
    v = ctx.validate('TraceRequire', rtraces + cans)
    ctx.traces -= len(cans)
    for vv, want in zip(v[len(rtraces):], ('name-bound-twice', 'required-name-missing', 'wrong-file-bound', 'spurious-error', 'ok')):
        ctx.canary(vv[0] == want, want)
    for it, o, vv in zip(items, res, v):
        g = it[1]
        desc = 'exists %s, requires %s' % (g['exists'], {f: r_ for f, r_ in g['req'].items() if r_})
        sites_used = 'all-sites' if len(it[4]) > 4 else 'plain-sites'
        if o['problem']:
            ctx.violation('output/%s' % o['problem'].split(':')[0], 'built cart malformed (%s): %s' % (o['problem'], desc), {'kind': 'graph', 'graph': g, 'seed': it[2]})
        if vv[0] == 'ok':
            ctx.nontrivial += 1
        else:
            loops = sorted({('first' if True else '') for f in o['loops'] if o['loops'][f]})
            where = (o['err'].split(':')[0] if o['err'] else 'rc')
            sig = '%s/%s/%s' % (vv[0], where, sites_used) if o['outcome'] == 'error' else '%s/%s' % (vv[0], sites_used)
            ctx.violation(sig, 'package table rejected (%s): build %s %s; bound %s; %s' % (vv[0], o['outcome'], o['err'], o['bound'], desc), {'kind': 'graph', 'graph': g, 'seed': it[2]})
    if ttraces:
        tv = ctx.validate('TraceTokens', ttraces)
        for (it, o, what), vv in zip(tmeta, tv):
            if vv[0] == 'ok':
                ctx.nontrivial += 1
            elif vv[0] == 'ood':
                ctx.out_of_domain += 1
            else:
                kind = what.split(':')[0]
                ctx.violation('tokens-%s/%s' % (kind, vv[0]), 'code of %s in the built cart is not token-for-token what it should be (%s at source offset %d)' % (what, vv[0], vv[1]),
                              {'kind': 'graph', 'graph': it[1], 'seed': it[2]})
    illformed(ctx)
    loadpaths(ctx)
    nested_loadpath(ctx)
    empty_packages(ctx)
    ctx.sample({'graph': {'exists': pick[0]['exists'], 'req': pick[0]['req']}, 'observed': res[0]['bound'], 'outcome': res[0]['outcome']})


LOADPATHS = ['?.lua', 'lib/?.lua', '?/init.lua', 'libs/?/?.lua', '?/?', 'x?y/?.lua', 'lib/?.lua;?.lua', 'nothere/?.lua;libs/?/?.lua;?', '?;?.lua', '?.lua;lib/?.lua',
             'lib/??.lua', '?/?/?.lua']


def _loadpath_case(item):
    lp, names, present, tmp, via = item
    from pico8 import tool
    from pico8.game import file as gfile
    core.quiet_picotool()
    S = tempfile.mkdtemp(prefix='c14lp_', dir=tmp)
    pats = lp.split(';')
    exists = []
    # a package file at every pattern's substitution for the names in `present` - and decoys where a loader that
    # substitutes only one "?" (or none) would look
    for n in names:
        for pi, pat in enumerate(pats):
            full = pat.replace('?', n)
            places = [(full, n in present)] + [(pat.replace('?', n, 1), False)] * (pat.count('?') > 1) + [(pat, False)] * (pat.count('?') > 0)
            for rel, real in places:
                if real or rel != full:
                    fp = os.path.join(S, rel)
                    if os.path.exists(fp) or os.path.isdir(fp):
                        continue
                    os.makedirs(os.path.dirname(fp) or S, exist_ok=True)
                    try:
                        with open(fp, 'wb') as f:
                            f.write(b'id_pkg = "' + rel.encode() + b'"\nreturn {}\n')
                        exists.append(rel)
                    except OSError:
                        pass
    with open(os.path.join(S, 'main.lua'), 'wb') as f:
        f.write(b''.join(b'local m%d = require("%s")\n' % (k, n.encode()) for k, n in enumerate(names)) + b'function f() return require("' + names[0].encode() + b'") end\n')
    out = os.path.join(S, 'out.p8')
    old_env = os.environ.get('PICO8_LUA_PATH')
    os.environ.pop('PICO8_LUA_PATH', None)
    argv = ['--quiet', 'build', out, '--lua', os.path.join(S, 'main.lua')]
    if via == 'option':
        argv += ['--lua-path', lp]
    else:
        os.environ['PICO8_LUA_PATH'] = lp          # (the load path from the environment, as the README describes)
    try:
        rc = tool.main(argv)
    except SystemExit as e:
        rc = e.code
    except Exception as e:  # noqa
        rc = 'exception %s' % type(e).__name__
    finally:
        os.environ.pop('PICO8_LUA_PATH', None)
        if old_env is not None:
            os.environ['PICO8_LUA_PATH'] = old_env
    rec = {'patterns': [p_.split('?') for p_ in pats], 'exists': exists, 'reqs': list(names), 'outcome': 'error', 'bound': []}
    if rc in (0, None) and os.path.exists(out):
        rec['outcome'] = 'ok'
        code = b''.join(gfile.from_file(out).lua.to_lines())
        heads = list(re.finditer(rb'package\._c\["([^"]*)"\]=function\(\)\n', code))
        for i, h in enumerate(heads):
            end = heads[i + 1].start() if i + 1 < len(heads) else len(code)
            m = re.search(rb'id_pkg = "([^"]*)"', code[h.end():end])
            rec['bound'].append([h.group(1).decode(), m.group(1).decode() if m else '?'])
    shutil.rmtree(S, ignore_errors=True)
    return rec, str(rc)


def loadpaths(ctx):
    """custom load paths (--lua-path): every "?" of a pattern stands for the require string; patterns are tried in order"""
    items = []
    for lp in LOADPATHS:
        for names, present in ((('vec', 'phys'), ('vec', 'phys')), (('vec',), ()), (('a', 'b'), ('a',)), (('vec', 'phys'), ('vec', 'phys'))):
            items.append((lp, names, present, ctx.tmp, 'option' if len(items) % 3 else 'env'))
    res = core.parmap(_loadpath_case, items, procs=8)
    can = {'patterns': [['libs/', '/', '.lua']], 'exists': ['libs/vec/vec.lua', 'libs/vec/?.lua'], 'reqs': ['vec'], 'outcome': 'ok', 'bound': [['vec', 'libs/vec/?.lua']]}
    v = ctx.validate('TraceLoadPath', [r for r, _ in res] + [can])
    ctx.traces -= 1
    ctx.canary(v[-1][0] == 'wrong-file-bound', 'only the first ? substituted')
    for (lp, names, present, _, via), (rec, rc), vv in zip(items, res, v):
        ctx.evaluations += 1
        if vv[0] == 'ok':
            ctx.nontrivial += 1
        else:
            ctx.violation('loadpath/%s/%s' % (vv[0], 'multi-q' if any(p_.count('?') > 1 for p_ in lp.split(';')) else 'single-q'),
                          'build with load path %r (given by %s) requiring %s (package files present for %s): %s; outcome %s (%s), bound %s' % (lp, '--lua-path' if via == 'option' else 'PICO8_LUA_PATH', list(names), list(present), vv[0], rec['outcome'], rc, rec['bound']),
                          {'kind': 'loadpath', 'lua_path': lp, 'names': list(names)})


def nested_loadpath(ctx):
    """a package found through the load path requires another package that is found through the load path only"""
    from pico8 import tool
    from pico8.game import file as gfile
    S = tempfile.mkdtemp(prefix='c14n_', dir=ctx.tmp)
    for n, body in (('phys', b'local v = require("vec")\nid_pkg = "libs/phys/phys.lua"\nreturn {}\n'), ('vec', b'id_pkg = "libs/vec/vec.lua"\nreturn {}\n')):
        os.makedirs(os.path.join(S, 'libs', n))
        open(os.path.join(S, 'libs', n, n + '.lua'), 'wb').write(body)
    os.makedirs(os.path.join(S, 'src'))
    open(os.path.join(S, 'src', 'main.lua'), 'wb').write(b'local p = require("phys")\n')
    out = os.path.join(S, 'out.p8')
    lp = os.path.join(S, 'libs', '?', '?.lua')
    try:
        rc = tool.main(['--quiet', 'build', out, '--lua', os.path.join(S, 'src', 'main.lua'), '--lua-path', lp])
    except SystemExit as e:
        rc = e.code
    except Exception as e:  # noqa
        rc = 'exception %s' % type(e).__name__
    rec = {'patterns': [['libs/', '/', '.lua']], 'exists': ['libs/phys/phys.lua', 'libs/vec/vec.lua'], 'reqs': ['phys', 'vec'], 'outcome': 'error', 'bound': []}
    if rc in (0, None) and os.path.exists(out):
        rec['outcome'] = 'ok'
        code = b''.join(gfile.from_file(out).lua.to_lines())
        heads = list(re.finditer(rb'package\._c\["([^"]*)"\]=function\(\)\n', code))
        for i, h in enumerate(heads):
            end = heads[i + 1].start() if i + 1 < len(heads) else len(code)
            m = re.search(rb'id_pkg = "([^"]*)"', code[h.end():end])
            rec['bound'].append([h.group(1).decode(), m.group(1).decode() if m else '?'])
    shutil.rmtree(S, ignore_errors=True)
    v = ctx.validate('TraceLoadPath', [rec])
    ctx.evaluations += 1
    if v[0][0] == 'ok':
        ctx.nontrivial += 1
    else:
        ctx.violation('loadpath-nested/%s' % v[0][0], 'main requires "phys" (found through --lua-path), phys requires "vec" (found through the same load path only): %s; outcome %s (%s), bound %s' % (
            v[0][0], rec['outcome'], rc, rec['bound']), {'kind': 'loadpath-nested'})


def empty_packages(ctx):
    """a required package whose file holds no statement (empty, comments only, only game-loop functions that are stripped)
    is still a required name: it must be defined once in the package table"""
    from pico8 import tool
    from pico8.game import file as gfile
    bodies = {'p': b'', 'q': b'-- nothing here\n// at all\n', 'sub/p': b'function _init()\n x=1\nend\nfunction _draw() cls() end\n'}
    traces = []
    for names in (('p',), ('q',), ('sub/p',), ('p', 'q', 'sub/p')):
        S = tempfile.mkdtemp(prefix='c14e_', dir=ctx.tmp)
        os.makedirs(os.path.join(S, 'sub'))
        for f, b in bodies.items():
            open(os.path.join(S, f + '.lua'), 'wb').write(b)
        open(os.path.join(S, 'main.lua'), 'wb').write(b''.join(b'local m%d = require("%s")\n' % (k, n.encode()) for k, n in enumerate(names)) + b'print(1)\n')
        out = os.path.join(S, 'out.p8')
        try:
            rc = tool.main(['--quiet', 'build', out, '--lua', os.path.join(S, 'main.lua')])
        except SystemExit as e:
            rc = e.code
        except Exception as e:  # noqa
            rc = 'exception %s' % type(e).__name__
        rec = {'exists': ['main', 'p', 'q', 'sub/p'], 'req': {'main': list(names)}, 'outcome': 'error', 'bound': []}
        if rc in (0, None) and os.path.exists(out):
            rec['outcome'] = 'ok'
            code = b''.join(gfile.from_file(out).lua.to_lines())
            rec['bound'] = [[m.group(1).decode(), m.group(1).decode()] for m in re.finditer(rb'package\._c\["([^"]*)"\]=function\(\)', code)]
        traces.append(rec)
        shutil.rmtree(S, ignore_errors=True)
    v = ctx.validate('TraceRequire', traces)
    for t, vv in zip(traces, v):
        ctx.evaluations += 1
        if vv[0] == 'ok':
            ctx.nontrivial += 1
        else:
            ctx.violation('empty-package/%s' % vv[0], 'build with required packages %s that hold no statement: %s; outcome %s, bound %s' % (t['req']['main'], vv[0], t['outcome'], t['bound']),
                          {'kind': 'empty-package', 'names': t['req']['main']})


def illformed(ctx):
    """a require() whose file cannot be found or whose arguments are not a string literal plus the
    one supported option must fail the build"""
    from pico8 import tool
    S = tempfile.mkdtemp(prefix='c14b_', dir=ctx.tmp)
    with open(os.path.join(S, 'p.lua'), 'wb') as f:
        f.write(b'x=1\n')
    bad = [b'require("nothere")\n', b'local n="p" require(n)\n', b'require("p", {use_game_loop=1})\n', b'require("p", {other=true})\n', b'require("p", true)\n',
           b'require()\n', b'require("p", {use_game_loop=true}, 3)\n', b'require("p" .. "q")\n', b'require{"p"}\n', b'require "nothere"\n',
           b'require("p", {use_game_loop=true, other=1})\n', b'require(p)\n', b'require(1)\n', b'require({})\n', b'x = {require("nothere2")}\n',
           b'function f() return require [[nothere3]] end\n']
    good = [b'require("p")\n', b'require("p", {use_game_loop=true})\n', b'require("p", {use_game_loop=false})\n', b'require "p"\n', b'require[[p]]\n',
            b"require'p'\n", b'local r = require\n', b'x.require(1)\n', b'x = require "p".y\n']
    for k, (src, must_fail) in enumerate([(s, True) for s in bad] + [(s, False) for s in good]):
        with open(os.path.join(S, 'main.lua'), 'wb') as f:
            f.write(src)
        out = os.path.join(S, 'o%d.p8' % k)
        try:
            rc = tool.main(['--quiet', 'build', out, '--lua', os.path.join(S, 'main.lua')])
        except SystemExit as e:
            rc = e.code
        except Exception as e:  # noqa
            rc = 'exception %s' % type(e).__name__
        failed = rc not in (0, None)
        ctx.evaluations += 1
        if failed == must_fail:
            ctx.nontrivial += 1
            ctx.traces += 1
        elif must_fail:
            ctx.violation('illformed-require-accepted/%d' % k, 'build succeeded for %r' % src, {'kind': 'illformed', 'src': src.decode()})
        else:
            ctx.violation('wellformed-require-rejected/%d' % k, 'build failed (%s) for %r' % (rc, src), {'kind': 'illformed', 'src': src.decode()})


def replay(ctx, path):
    run(ctx)
