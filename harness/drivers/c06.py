"""C06 - unchanged code is echoed losslessly (default writer).

Sources: (a) every in-dialect string over the string-literal piece alphabets enumerated by TLC
(GenLex), (b) structured literals: every byte value raw / as \\ddd (1-3 digits, followed by a
digit, a letter, nothing) / as \\xhh, in both quote kinds and long brackets of level 0-3,
(c) fixtures and generated programs in all layouts, with / without final newline, LF / CRLF;
each loaded as one chunk and as per-line chunks and written back with the default writer.
Judge: TraceEcho.tla (byte identity outside string literals, value identity inside, both
streams end together). Outputs byte-identical to the source satisfy the property trivially and
are only counted; every re-spelled output is judged by TLC.
"""
import json
import multiprocessing as mp
import os
import random
import shutil
import re
import tempfile

from .. import cartio, core, lexref, progs
from .c07 import fixture_sources, GEN_CFG
from pico8.lua import lua, lexer


def echo(src, chunks):
    """The default writer's output for the source, or (None, error)."""
    lx = lexer.Lexer(version=8)
    try:
        lx.process_lines(chunks)
    except Exception as e:  # noqa
        return None, '%s: %s' % (type(e).__name__, e)
    try:
        w = lua.LuaEchoWriter(tokens=lx.tokens, root=None, args=None)
        return b''.join(w.to_lines()), None
    except Exception as e:  # noqa
        return None, '%s: %s' % (type(e).__name__, e)


def echo_via_lua(src):
    try:
        L = lua.Lua.from_lines([src], 8)
        return b''.join(L.to_lines()), None
    except Exception as e:  # noqa
        return None, '%s: %s' % (type(e).__name__, e)


def _work(lines):
    """GenLex records -> list of (src, chunking, out) needing TLC, and counters."""
    res = {'identical': 0, 'ood': 0, 'need': [], 'rejects': []}
    for line in lines:
        rec = json.loads(json.loads(line))
        src = bytes(rec['s'])
        if not lexref.in_domain(src, rec['toks']):
            res['ood'] += 1
            continue
        for cname, chunks in lexref.chunkings(src).items():
            out, err = echo(src, chunks)
            if out is None:
                res['rejects'].append((rec['s'], cname, err))
            elif out == src:
                res['identical'] += 1
            else:
                res['need'].append((rec['s'], cname, list(out)))
    return res


def structured_literals():
    out = []
    for b in range(256):
        d = str(b)
        forms = {d, d.zfill(2), d.zfill(3)}
        for f in sorted(forms):
            for q in (b'"', b"'"):
                for tail in (b'', b'1', b'a', b'\\' + q):
                    if len(f) == 3 or tail != b'1' or True:
                        out.append(b'x=' + q + b'\\' + f.encode() + tail + q + b'\n')
        out.append(b'x="\\x%02x" y=\'\\x%02X1\'\n' % (b, b))
        if b not in (10, 13, 34, 92):
            out.append(b'x="a' + bytes([b]) + b'b"\n')
        if b not in (10, 13, 39, 92):
            out.append(b"x='" + bytes([b]) + b"'\n")
        for lvl in range(4):
            eq = b'=' * lvl
            if b != 93:
                out.append(b'x=[' + eq + b'[' + bytes([b]) + b'z]' + eq + b']\n')
    out += [b'x="a\\z  \n  b"\n', b'x="a\\\nb"\n', b'x="\\*\\#\\-\\|\\+\\^"\n', b'x="\\a\\b\\f\\n\\r\\t\\v\\\\\\"\\\'"\n',
            b"x='\\a\\b\\f\\n\\r\\t\\v\\\\\\\"\\''\n", b'x=[[\nfirst newline skipped]]\n', b'x=[==[\r\n]]]=]]==]\n',
            b'x="\\0001" y="\\0145" z="\\14\\15\\0"\n', b'x="\\0" .. "1"\n',
            # outside the reference dialect, lexable by picotool: judged through picotool's own token list
            b'x=1 --[=[ note ]=]\ny=2\n', b'--[==[ a\n]] b ]==]\nz=3\n', b'x=1e y=0x\n', b'a="\\q" b=2\n', b'x=1\ry=2\r']
    return out


def impl_tiles(src, cname):
    """[kind, srcStart, srcEnd, outStart, outEnd] (1-based, end exclusive) of picotool's own tokens:
    source extents from the reported line / column, output extents from the lengths of the codes."""
    chunks = lexref.chunkings(src).get(cname) or [src]
    toks, err = lexref.lex_impl(chunks)
    if toks is None:
        return []
    ls = lexref.line_starts(src)
    starts = []
    for t in toks:
        if t._lineno is None or not (0 <= t._lineno < len(ls)):
            return []
        starts.append(ls[t._lineno] + t._charno)
    out = []
    o = 0
    for k, t in enumerate(toks):
        end = starts[k + 1] if k + 1 < len(toks) else len(src)
        n = len(t.code)
        out.append([lexref.kind_of(t), starts[k] + 1, end + 1, o + 1, o + n + 1])
        o += n
    return out


def judge_batch(ctx, items, label):
    """items: (name, src, chunking, out). TLC judges; returns counts."""
    traces = [{'src': list(src), 'out': list(out), 'itoks': impl_tiles(src, cname)} for (_, src, cname, out) in items]
    if not traces:
        return
    verdicts = ctx.validate('TraceEcho', traces, chunk=20000)
    for (name, src, cname, out), v in zip(items, verdicts):
        if v[0] == 'ok' and '!rejected:' in name:
            ctx.violation('rejects/' + lexref.shape(src), 'in-dialect source not echoed (%s): %s' % (cname, name.split('!rejected:')[1]),
                          {'kind': 'echo', 'src': list(src), 'chunking': cname})
        elif v[0] in ('ok', 'ok-by-impl-tokens'):
            ctx.nontrivial += 1
        elif v[0] == 'ood':
            ctx.out_of_domain += 1
        else:
            i = v[1]
            tok = src[max(i - 1, 0):i + 11]
            sig = '%s/%s' % (v[0], lexref.shape(tok))
            ctx.violation(sig, 'default writer output rejected by TraceEcho (%s) at offset %d of %s (%s): %r -> %r' % (
                v[0], i, name, cname, src[max(i - 1, 0):i + 15], out[max(v[2] - 1, 0):v[2] + 15]),
                {'kind': 'echo', 'src': list(src), 'chunking': cname})


def run_enum(ctx, pieces, maxp, label):
    pool = mp.get_context('fork').Pool(16)
    pend = []
    r = ctx.tlc('GenLex', GEN_CFG % (pieces, maxp), name='GenLex_' + label,
                on_json_batch=lambda b: pend.append(pool.apply_async(_work, (b,))))
    items = []
    ident = 0
    for p in pend:
        o = p.get()
        ident += o['identical']
        ctx.out_of_domain += o['ood']
        for s, cname, out in o['need']:
            items.append(('enum:' + label, bytes(s), cname, bytes(out)))
        for s, cname, err in o['rejects']:
            ctx.violation('rejects/' + lexref.shape(bytes(s)), 'in-dialect source not echoed: %s' % err,
                          {'kind': 'echo', 'src': s, 'chunking': cname})
    pool.close()
    pool.join()
    ctx.evaluations += r.distinct
    ctx.notes.setdefault('enumerations', []).append({'pieces': pieces, 'max_pieces': maxp, 'strings': r.distinct,
                                                     'byte_identical_outputs': ident, 'respelled_judged_by_tlc': len(items)})
    ctx.notes['byte_identical_outputs'] = ctx.notes.get('byte_identical_outputs', 0) + ident
    judge_batch(ctx, items, label)


def run_sources(ctx, sources, label):
    items = []
    ident = 0
    for name, src in sources:
        for cname, chunks in lexref.chunkings(src).items():
            out, err = echo(src, chunks)
            if out is None:
                # judged with the identity output: a verdict `ok` means the source is in the dialect
                # and picotool refused it; `ood` means the reference rejects it too
                items.append((name + '!rejected:' + err, src, cname, src))
            elif out == src:
                ident += 1
                if ident % 10 == 0:
                    items.append((name, src, cname, out))
            else:
                items.append((name, src, cname, out))
        out, err = echo_via_lua(src)
        if out is not None and out != src:
            items.append((name, src, 'Lua.to_lines', out))
    ctx.evaluations += len(sources) * 2
    ctx.notes['byte_identical_outputs'] = ctx.notes.get('byte_identical_outputs', 0) + ident
    judge_batch(ctx, items, label)
    return items


def cli_writep8(ctx, src):
    """Once through the CLI: p8tool writep8 on a temp cart; the __lua__ section must echo."""
    from pico8 import tool
    d = tempfile.mkdtemp(prefix='c06_', dir=ctx.tmp)
    p = os.path.join(d, 'in.p8')
    with open(p, 'wb') as f:
        f.write(b'pico-8 cartridge // http://www.pico-8.com\nversion 8\n__lua__\n' + src + b'__gfx__\n')
    try:
        rc = tool.main(['--quiet', 'writep8', p])
    except SystemExit as e:
        rc = e.code
    outp = os.path.join(d, 'in_fmt.p8')
    if rc not in (0, None) or not os.path.exists(outp):
        ctx.violation('cli-writep8-fails', 'p8tool writep8 failed on an ASCII fixture (rc=%s)' % rc, {'kind': 'cli', 'src': list(src)})
        return
    data = open(outp, 'rb').read()
    a = data.index(b'__lua__\n') + 8
    b = data.index(b'\n__gfx__')
    out = data[a:b + 1]
    judge_batch(ctx, [('cli-writep8', src, 'p8tool', out)], 'cli')


def _cart_copy(item):
    """the code of a source through the cart writers: .p8 file, .p8.png file, `build --lua`, a required package"""
    name, src, tmp = item
    from pico8 import tool
    from pico8.game import file as gfile
    core.quiet_picotool()
    d = tempfile.mkdtemp(prefix='c06c_', dir=tmp)
    out = []
    g = cartio.make_game(cartio.memory((1, 2), {}), src, None, 16)
    for ext in ('.p8', '.p8.png'):
        fp = os.path.join(d, 'c' + ext)
        try:
            gfile.to_file(g, fp)
            out.append((ext, cartio.game_code(gfile.from_file(fp))))
        except Exception as e:  # noqa
            out.append((ext, 'raises %s: %s' % (type(e).__name__, str(e)[:60])))
    with open(os.path.join(d, 'main.lua'), 'wb') as f:
        f.write(b'local p = require("pkg")\n' + src)
    with open(os.path.join(d, 'pkg.lua'), 'wb') as f:
        f.write(src)
    try:
        rc = tool.main(['--quiet', 'build', os.path.join(d, 'b.p8'), '--lua', os.path.join(d, 'main.lua')])
        out.append(('build', cartio.game_code(gfile.from_file(os.path.join(d, 'b.p8'))) if rc in (0, None) else 'rc %s' % rc))
    except SystemExit as e:
        out.append(('build', 'exit %s' % e.code))
    except Exception as e:  # noqa
        out.append(('build', 'raises %s: %s' % (type(e).__name__, str(e)[:60])))
    shutil.rmtree(d, ignore_errors=True)
    return out


def cart_copies(ctx, sources):
    """"every cart write with the default writer", "`build` copying code": the source must come out of a .p8 file, a .p8.png
    file and a build (as the main program and as a required package) unchanged, up to the final newline the formats supply"""
    items = [(n, s, ctx.tmp) for n, s in sources if s.strip() and b'\0' not in s and not re.search(rb'(^|\n)__\w+__(\r?\n|$)', s)]
    res = core.parmap(_cart_copy, items, procs=16, min_parallel=8)
    batch = []
    for (name, src, _), outs in zip(items, res):
        for how, got in outs:
            ctx.evaluations += 1
            if isinstance(got, str):
                # not writable / not buildable: only sources that the plain echo handles are expected to work
                try:
                    from pico8.lua import lua
                    L = lua.Lua.from_lines([src], 8)
                    ok = L.root.end_pos >= len([t for t in L.tokens]) - 3
                except Exception:
                    ok = False
                if ok and how != '.p8.png' and not (how == 'build' and b'require' in src):
                    ctx.violation('cart-copy-fails/%s' % how, 'the code of %s could not be carried through %s: %s' % (name, how, got), {'kind': 'copy', 'src': list(src), 'how': how})
                else:
                    ctx.out_of_domain += 1
                continue
            want = src if src.endswith(b'\n') else src + b'\n'
            if how == 'build' and re.search(rb'function\s+_(init|update|update60|draw)\b', src):
                ctx.out_of_domain += 1          # (build strips a package's game-loop functions: C14)
                continue
            if how == 'build':
                # main program at the end; the package body inside its function
                tail = got[-len(b'local p = require("pkg")\n' + want):]
                if tail.rstrip(b'\n') == (b'local p = require("pkg")\n' + want).rstrip(b'\n') and (want.rstrip(b'\n') + b'\n') in got[:len(got) - len(tail) + 1]:
                    ctx.nontrivial += 1
                    ctx.traces += 1
                else:
                    k = got.find(b'package._c["pkg"]=function()\n')
                    batch.append((name + '/build-package', want, 'build', got[k + 29:k + 29 + len(want)] if k >= 0 else got))
                continue
            if how == '.p8.png':
                want = want.replace(b'\r', b' ')        # (the .p8.png reader turns CR into a blank: the normalisation C04 allows)
                # ... and may supply a final newline; it never takes one away
                s0 = src.replace(b'\r', b' ')
                if got not in (s0, s0 + b'\n'):
                    batch.append((name + '/' + how, s0, how, got))
                    continue
            if got.rstrip(b'\n') == want.rstrip(b'\n'):
                ctx.nontrivial += 1
                ctx.traces += 1
            else:
                batch.append((name + '/' + how, want, how, got))
    if batch:
        judge_batch(ctx, batch, 'cart-copy')


def run(ctx):
    rnd = random.Random(ctx.seed)
    ctx.rule = ('sources: TLC-enumerated strings over string-literal piece alphabets, structured literals for all 256 byte values in every escape form, '
                'fixtures and GenProg programs in all layouts; each echoed as one chunk and as per-line chunks. Non-trivial = the output differs from the '
                'source (a literal was re-spelled) and the reference accepts the source; byte-identical outputs are counted separately.')
    ctx.assumptions = ['P8Lex.tla (string values, token extents) is the lexical grammar', 'byte-identical output satisfies the property by definition']
    run_enum(ctx, 'PiecesStr', 4 if ctx.quick else 5, 'strpieces')
    run_enum(ctx, 'PiecesCharsB', 4 if ctx.quick else 5, 'strchars')
    lits = [('lit%d' % k, s) for k, s in enumerate(structured_literals())]
    items = run_sources(ctx, lits, 'structured')
    srcs = fixture_sources()
    gen = progs.program_sources(ctx, rnd, 200 if ctx.quick else 3000)
    more = []
    for name, s in srcs + gen[:50]:
        more.append((name + '/nofinalnl', s.rstrip(b'\r\n')))
        more.append((name + '/crlf', s.replace(b'\r\n', b'\n').replace(b'\n', b'\r\n')))
    run_sources(ctx, srcs + gen + more, 'programs')
    cli_writep8(ctx, open(os.path.join(core.VERIF, 'fixtures', 'lua', 'every_node.lua'), 'rb').read())
    ctrl = [('ctrl%d' % b, b'x=1 -- ' + bytes([b]) + b' glyph on an ascii line\ns="' + bytes([b]) + b'"\n') for b in list(range(16, 32)) + [127, 1, 9, 128, 255]]
    ws = [('trailing-ws', b'local m={}  \nm.x=1\t\nreturn m  '), ('trailing-ws-nl', b'local m={}\nreturn m \t\n'), ('trailing-cr', b'local m={}\r\nreturn m\r\n'),
          ('blank-tail', b'm=1\n\n\n'), ('indent', b'  m=1\n\tn=2\n'), ('update60', b'function _update60() end\n'), ('update60-nonl', b'function _update60() t=1 end'),
          ('multiline-tail-nonl', b'x=[[a\nb]]'), ('cont-tail-nonl', b's="a\\\nb"'), ('comment-tail-nonl', b'y=1 --[[c\nd]]'), ('comment-only-tail', b'y=1\n-- end')]
    cart_copies(ctx, ctrl + ws + [(n, s_) for n, s_ in srcs if len(s_) < 5000] + gen[:(30 if ctx.quick else 300)])
    # canaries: a dropped byte outside a literal, a changed byte inside one
    base = b'x="a\\65b" -- c\ny=2\n'
    v = ctx.validate('TraceEcho', [{'src': list(base), 'out': list(base.replace(b'y=2', b'y=3')), 'itoks': []},
                                   {'src': list(base), 'out': list(base.replace(b'\\65', b'B')), 'itoks': []},
                                   {'src': list(base), 'out': list(base.replace(b'\\65', b'A')), 'itoks': []}])
    ctx.traces -= 3
    ctx.canary(v[0][0] == 'bytes', 'changed byte outside literal')
    ctx.canary(v[1][0] == 'strval', 'changed literal value')
    if v[2][0] != 'ok':
        raise core.MachineryError('TraceEcho rejects an equivalent re-spelling: %s' % v[2])
    if items:
        n, s, c, o = items[0]
        ctx.sample({'src': s.decode('latin1'), 'out': o.decode('latin1'), 'chunking': c})


def replay(ctx, path):
    rec = json.load(open(path))['replay']
    run_sources(ctx, [('replay', bytes(rec['src']))], 'replay')
