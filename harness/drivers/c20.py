"""C20 - #include splices exactly the named file or cart tab at the include line.

Include.tla: a cart's code is a sequence of lines, each plain or an #include of a .lua file, a
.p8 cart or a .p8.png cart (in the cart directory or a subdirectory), optionally with a tab
selector; Splice gives the expected line sequence (tabs delimited by -->8 lines, 0-based,
delimiters excluded, out-of-range tab empty, includes inside included carts kept verbatim,
missing target = error). TLC enumerates every cart of up to N lines and prints the expectation;
the harness materialises the files (the .lua target with and without final newline), loads the
cart with file.from_file and compares the loaded code line by line.
"""
import json
import os
import random
import shutil
import tempfile

from .. import core

GEN = '''SPECIFICATION Spec
CONSTANT MaxLines = %d
CONSTRAINT Emit
CHECK_DEADLOCK FALSE
'''
LINE = {'M': b'm=0', 'L1': b'l1=1', 'L2': b'l2=2', 'C1': b'c1=1', 'C2': b'c2=2', 'C3': b'c3=3', '-->8': b'-->8', '#include L.lua': b'#include L.lua',
        'P1': b'p1=1 -- pppppppppppppppppppppppppppppppppppppppp', 'P2': b'p2=2 -- pppppppppppppppppppppppppppppppppppppppp'}
# (the .p8.png target's code is long enough to be stored compressed, so it is read back exactly;
# a raw-stored code gains a trailing newline from the reader's normalisation, which C04 allows)
HDR = b'pico-8 cartridge // http://www.pico-8.com\nversion 8\n__lua__\n'
_SB = {}


def sandbox(tmp, lua_final_nl):
    key = lua_final_nl
    if key in _SB:
        return _SB[key]
    from pico8.game import file as gfile
    from .. import cartio
    S = tempfile.mkdtemp(prefix='c20_', dir=tmp)
    os.makedirs(os.path.join(S, 'sub'))
    for d in ('', 'sub'):
        with open(os.path.join(S, d, 'T.lua'), 'wb') as f:
            f.write(b'l1=1\nl2=2' + (b'\n' if lua_final_nl else b''))
        with open(os.path.join(S, d, 'T.p8'), 'wb') as f:
            # (in the no-final-newline sandbox the included cart, too, ends right after its last code line)
            f.write(HDR + b'c1=1\n-->8\nc2=2\n#include L.lua\nc3=3\n-->8' + (b'\n__gfx__\n' if lua_final_nl else b''))
        g = cartio.make_game(cartio.memory((0, 0), {}), LINE['P1'] + b'\n' + LINE['P2'] + b'\n', None, 8)
        gfile.to_file(g, os.path.join(S, d, 'T.p8.png'))
    os.symlink(S, S + '_ln')          # the same directory reached through a symbolic link
    # the same files below a PICO-8 carts folder (HOME is pointed at S/home while such a cart is loaded): the include root is
    # then the carts folder, the targets are still found next to the cart
    game_dir = os.path.join(S, 'home', '.lexaloffle', 'pico-8', 'carts', 'mygame')
    os.makedirs(os.path.dirname(game_dir))
    shutil.copytree(S, game_dir, ignore=shutil.ignore_patterns('home'))
    for decoy in ('T.lua', 'sub/T.lua'):
        dp = os.path.join(os.path.dirname(game_dir), decoy)
        os.makedirs(os.path.dirname(dp), exist_ok=True)
        open(dp, 'wb').write(b'decoy=1\n')       # what a loader that resolves against the carts folder itself would find
    _SB[key] = S
    return S


def _case(item):
    rec, lua_final_nl, tmp = item
    from pico8.game import file as gfile
    S = sandbox(tmp, lua_final_nl)
    lines = []
    k = 0
    for it in rec['cart']:
        if it['k'] == 'plain':
            k += 1
            lines.append(b'm%d=%d' % (k, k))
        else:
            name = {'L': 'T.lua', 'C': 'T.p8', 'P': 'T.p8.png', 'missing': 'nothere.lua'}[it['t']]      # (the three targets share their stem)
            path = (it['dir'] + '/' if it['dir'] else '') + name
            sel = (':%d' % it['tab']) if it['tab'] >= 0 else ''
            lines.append(b'#include ' + path.encode() + sel.encode())
    cart = os.path.join(S, 'cart_%d.p8' % os.getpid())
    with open(cart, 'wb') as f:
        f.write(HDR + b''.join(l + b'\n' for l in lines) + b'__gfx__\n')
    # expected concrete lines
    want = []
    k = 0
    if not rec['fails']:
        pi = 0
        plain_idx = [i for i, it in enumerate(rec['cart']) if it['k'] == 'plain']
        # the spec prints "M" for every plain line; map back to the concrete distinct lines in order
        for e in rec['expect']:
            if e == 'M':
                k += 1
                want.append(b'm%d=%d' % (k, k))
            else:
                want.append(LINE[e])
    # the ways a user can name the same cart file: absolute, through a symlinked directory, relative to the
    # working directory, with redundant components
    how = (len(lines) * 7 + sum(len(l) for l in lines)) % 6
    given = cart
    cwd = os.getcwd()
    old_home = os.environ.get('HOME')
    if how == 4:
        given = os.path.join(S, 'home', '.lexaloffle', 'pico-8', 'carts', 'mygame', os.path.basename(cart))
        shutil.copyfile(cart, given)
        os.environ['HOME'] = os.path.join(S, 'home')
    if how == 1:
        given = os.path.join(S + '_ln', os.path.basename(cart))
    elif how == 2:
        os.chdir(S)
        given = os.path.basename(cart)
    elif how == 3:
        given = os.path.join(S, 'sub', '..', '.', os.path.basename(cart))
    elif how == 5:
        os.chdir(os.path.dirname(S))            # relative, with a directory component
        given = os.path.join(os.path.basename(S), os.path.basename(cart))
    try:
        g = gfile.from_file(given)
        got = [l.rstrip(b'\n') for l in b''.join(g.lua.to_lines()).split(b'\n')]
        if got and got[-1] == b'':
            got = got[:-1]
        outcome = 'ok'
    except Exception as e:  # noqa
        got, outcome = [], 'error:%s' % type(e).__name__
    finally:
        os.chdir(cwd)
        if how == 4:
            if old_home is None:
                os.environ.pop('HOME', None)
            else:
                os.environ['HOME'] = old_home
    return want, got, outcome


def classify(want, got):
    for i in range(max(len(want), len(got))):
        w = want[i] if i < len(want) else None
        g = got[i] if i < len(got) else None
        if w != g:
            if g is not None and w is not None and i + 1 < len(want) and g == w + want[i + 1]:
                return 'glued-line'
            if g is None:
                return 'missing-line'
            if w is None:
                return 'extra-line'
            if g in want:
                return 'wrong-lines'
            return 'unexpected-line'
    return None


def _reload(item):
    """one process: load a cart, replace its include target on disk by another version, load again (and once more after
    switching back): every load splices the target as it is NOW"""
    kind, tmp = item
    from pico8.game import file as gfile
    from .. import cartio
    S = tempfile.mkdtemp(prefix='c20r_', dir=tmp)
    vers = {'A': [b'va1=1', b'-->8', b'va2=2 -- ' + b'a' * 40], 'B': [b'vb1=1', b'vb1b=1 -- ' + b'b' * 40, b'-->8', b'vb2=2'], 'C': [b'vc=3 -- ' + b'c' * 60]}   # (long enough to be stored compressed in a .p8.png: a raw-stored code gains a newline when read, which C04 allows)
    name, tab = kind
    out = []
    for v in ('A', 'B', 'A', 'C'):
        lines = vers[v]
        code = b''.join(l + b'\n' for l in lines)
        tp = os.path.join(S, name)
        if name.endswith('.lua'):
            open(tp, 'wb').write(code)
        elif name.endswith('.png'):
            gfile.to_file(cartio.make_game(cartio.memory((0, 0), {}), code, None, 8), tp)
        else:
            open(tp, 'wb').write(HDR + code + b'__gfx__\n')
        sel = (':%d' % tab) if tab is not None else ''
        open(os.path.join(S, 'main.p8'), 'wb').write(HDR + b'm1=1\n#include ' + name.encode() + sel.encode() + b'\nm2=2\n__gfx__\n')
        if tab is None:
            mid = lines
        else:
            tabs = [[]]
            for l in lines:
                if l == b'-->8':
                    tabs.append([])
                else:
                    tabs[-1].append(l)
            mid = tabs[tab] if tab < len(tabs) else []
        want = [b'm1=1'] + mid + [b'm2=2']
        try:
            g = gfile.from_file(os.path.join(S, 'main.p8'))
            got = [l for l in b''.join(g.lua.to_lines()).split(b'\n')]
            if got and got[-1] == b'':
                got = got[:-1]
        except Exception as e:  # noqa
            got = [b'<%s>' % type(e).__name__.encode()]
        out.append((v, want, got))
    shutil.rmtree(S, ignore_errors=True)
    return out


def many_tabs(ctx):
    """tab selectors of more than one digit: a cart with 13 tabs, `NAME:n` for n around 9..13 (13 is past the last tab)"""
    from pico8.game import file as gfile
    S = tempfile.mkdtemp(prefix='c20t_', dir=ctx.tmp)
    tabs = [[b't%d=%d' % (k, k), b'u%d=0' % k] for k in range(13)]
    code = b'\n-->8\n'.join(b'\n'.join(t) for t in tabs) + b'\n'
    open(os.path.join(S, 'T13.p8'), 'wb').write(HDR + code + b'__gfx__\n')
    for n in (0, 1, 9, 10, 11, 12, 13, 20, 100):
        open(os.path.join(S, 'm.p8'), 'wb').write(HDR + b'm1=1\n#include T13.p8:%d\nm2=2\n__gfx__\n' % n)
        want = [b'm1=1'] + (tabs[n] if n < len(tabs) else []) + [b'm2=2']
        try:
            g = gfile.from_file(os.path.join(S, 'm.p8'))
            got = b''.join(g.lua.to_lines()).split(b'\n')
            if got and got[-1] == b'':
                got = got[:-1]
        except Exception as e:  # noqa
            got = [b'<%s>' % type(e).__name__.encode()]
        ctx.evaluations += 1
        if got == want:
            ctx.traces += 1
            ctx.nontrivial += 1
        else:
            ctx.violation('many-tabs/%s/%s' % (classify(want, got), 'two-digit' if n >= 10 else 'one-digit'), '#include T13.p8:%d of a 13-tab cart: loaded %r, specified %r' % (n, got[:6], want[:6]),
                          {'kind': 'many-tabs', 'n': n})
    shutil.rmtree(S, ignore_errors=True)


def reload_histories(ctx):
    kinds = [('T.lua', None), ('T.p8', None), ('T.p8', 0), ('T.p8', 1), ('T.p8.png', None), ('T.p8.png', 1)]
    res = core.parmap(_reload, [(k, ctx.tmp) for k in kinds], procs=6)
    for (name, tab), r in zip(kinds, res):
        for j, (v, want, got) in enumerate(r):
            ctx.evaluations += 1
            if want == got:
                ctx.traces += 1
                ctx.nontrivial += 1
            else:
                ctx.violation('reload/%s/%s' % (classify(want, got), name.split('.', 1)[1] + ('-tab' if tab is not None else '')),
                              'load %d in one process of a cart that includes %s%s, after the target was replaced on disk (version %s): loaded %r, the target now holds %r' % (
                                  j + 1, name, '' if tab is None else ':%d' % tab, v, got[:6], want[:6]), {'kind': 'reload', 'target': name, 'tab': tab})
            if want != got:
                break


def run(ctx):
    ctx.rule = ('every cart of <= N lines over {plain line, #include of a .lua file / a .p8 cart / a .p8.png cart in the cart directory or a subdirectory, tab selectors none and 0..3, a missing target}; '
                'each with the .lua target ending in a newline and not; non-trivial = cart contains at least one include and the loaded lines equal the specified splice (or the load fails as specified)')
    ctx.assumptions = ['Include.tla: tabs are 0-based and delimited by -->8 lines (delimiters excluded when a tab is selected), an out-of-range tab is empty, '
                       'includes inside included carts are not expanded; a :n selector on a .lua target is outside the statement']
    n = 3 if ctx.quick else 4
    r = ctx.tlc('Include', GEN % n, name='GenInclude')
    recs = r.jsons
    items = [(rec, nl, ctx.tmp) for rec in recs for nl in (True, False) if any(it['k'] == 'inc' for it in rec['cart']) or nl]
    rnd = random.Random(ctx.seed)
    if ctx.quick:
        items = [x for x in items if len(x[0]['cart']) <= 2 or rnd.randrange(4) == 0]
    else:
        # all carts of <= 3 lines; one in five of the 4-line carts (346k carts x 2 took 52 min)
        items = [x for x in items if len(x[0]['cart']) <= 3 or rnd.randrange(5) == 0]
    res = core.parmap(_case, items, procs=12)
    ctx.evaluations += len(items)
    good = 0
    for (rec, nl, _), (want, got, outcome) in zip(items, res):
        desc = [(it['t'] or 'plain') + (('/' + it['dir']) if it['dir'] else '') + ((':%d' % it['tab']) if it['tab'] >= 0 else '') for it in rec['cart']]
        if rec['fails']:
            if outcome.startswith('error'):
                good += 1
            else:
                ctx.violation('missing-target-accepted', 'cart %s includes a missing file but loaded without error' % desc, {'kind': 'include', 'cart': rec['cart'], 'lua_final_newline': nl})
            continue
        if outcome != 'ok':
            ctx.violation('load-fails/%s' % outcome.split(':')[1], 'cart %s failed to load: %s' % (desc, outcome), {'kind': 'include', 'cart': rec['cart'], 'lua_final_newline': nl})
            continue
        c = classify(want, got)
        if c is None:
            good += 1
        else:
            kinds = sorted({it['t'] for it in rec['cart'] if it['k'] == 'inc'})
            sel = 'tab' if any(it['tab'] >= 0 for it in rec['cart']) else 'notab'
            ctx.violation('%s/%s/%s/%s' % (c, '+'.join(kinds), sel, 'lua-nl' if nl else 'lua-no-final-nl'),
                          'cart %s (lua target %s final newline): loaded %r, specified %r' % (desc, 'with' if nl else 'without', got[:8], want[:8]),
                          {'kind': 'include', 'cart': rec['cart'], 'lua_final_newline': nl})
    ctx.traces += good
    ctx.nontrivial += good
    reload_histories(ctx)
    many_tabs(ctx)
    ctx.exhaustive = False
    ctx.notes['exhaustive_up_to_lines'] = 2 if ctx.quick else 3
    ctx.canary(classify([b'a', b'b'], [b'ab']) == 'glued-line' and classify([b'a'], [b'a']) is None, 'comparison notices a glued line')
    ctx.sample({'cart': recs[len(recs) // 2]['cart'], 'expect': recs[len(recs) // 2]['expect']})


def replay(ctx, path):
    rec = json.load(open(path))['replay']
    r = ctx.tlc('Include', GEN % len(rec['cart']), name='GenInclude')
    for x in r.jsons:
        if x['cart'] == rec['cart']:
            want, got, outcome = _case((x, rec.get('lua_final_newline', True), ctx.tmp))
            if x['fails'] != outcome.startswith('error') or (not x['fails'] and classify(want, got)):
                ctx.violation('replay', 'still differs: %r vs %r' % (got[:6], want[:6]), rec)
