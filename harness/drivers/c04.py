"""C04 - .p8.png write/read round trip, fit rule, label pixels.

Carts (memory pattern + overrides, version, Lua code of sizes from empty through the 0x3d00-byte
code area and beyond, compressible and not, with `_update60`, with CR) are written with
file.to_file to a .p8.png whose destination is absent or already holds a picture with arbitrary
pixels. The written bytes are decoded by an independent PNG decoder (validity, outside TLA+);
sampled pixels, the code area and what from_file reads back are judged by TracePng.tla (focus
C04): outcome vs the fit rule, channel packing and memory layout, label bits, code area decodes
(Compress machine) to exactly the code, regions / version / code preserved. Also the chain
.p8 -> .p8.png -> .p8 through p8tool.
"""
import json
import os
import random
import tempfile

from .. import core, cartio, refpng
from .c16 import png_pixels, sample_idxs

W, H = 160, 205


def incompressible(rnd, n):
    """n bytes of valid Lua that does not compress: one comment line of random characters."""
    alpha = bytes(range(33, 127)) + bytes(range(128, 256))
    body = bytes(rnd.choice(alpha) for _ in range(max(n - 3, 0)))
    return (b'--' + body + b'\n')[:n] if n >= 3 else b'x=1'[:n]


def codes(ctx, rnd):
    out = [('empty', b''), ('onechar', b'x'), ('short', b'print("0.1.10c")\n'), ('crlf', b'x=1\r\ny=2\r\n'),
           ('update60', b'function _update60()\n t+=1\nend\nfunction _draw()\n cls()\nend\n'),
           ('compressible', b'print("hello hello hello hello")\n' * 20),
           ('nofinalnl', b'x=1 y=2'), ('highbytes', b'print("\x80\x99\xff")\n' * 4)]
    line = b'function f%d() return 12345 end\n'
    out.append(('big-compressible', b''.join(line % (i % 7) for i in range(600 if ctx.quick else 2100))))
    for n in ((0x3cff, 0x3d00, 0x3d01) if ctx.quick else (0x3cfe, 0x3cff, 0x3d00, 0x3d01, 0x3d02, 0x3e00, 0x5000)):
        out.append(('incompressible-%x' % n, incompressible(rnd, n)))
        if n in (0x3cff, 0x3d00):
            # the same sizes without a final newline (a reader that loses the last byte must not hide behind the newline rule)
            out.append(('incompressible-nonl-%x' % n, incompressible(rnd, n)[:-1] + b'q'))
    if not ctx.quick:
        for k in range(30):
            out.append(('rand%d' % k, incompressible(rnd, rnd.randrange(4, 400)) + b'x=%d\n' % k * rnd.randrange(0, 30)))
    return out


def tuned_boundary_codes(ctx, rnd):
    """Codes whose COMPRESSED stream size sits at the edge of the code area (stream + 8 header bytes =
    0x3d00 - 1, 0x3d00, 0x3d00 + 4, ...) while the raw text is far too big: the fit rule must count the
    header. One pass replicating the compressor's greedy loop (with picotool's own block finder) over a
    compressible comment gives the stream size after every block; the text is cut where the size hits a target."""
    from pico8.game import compress
    table = set(compress.COMPRESSED_LUA_CHAR_TABLE[1:])
    text = b'--' + bytes(rnd.choice(b'abcdef') for _ in range(64000))
    area = 0x3d00
    targets = {area - 8: 'fits-exactly', area - 4: 'over-by-4'} if ctx.quick else {
        area - 9: 'fits-by-1', area - 8: 'fits-exactly', area - 7: 'over-by-1', area - 4: 'over-by-4', area - 1: 'over-by-7', area: 'over-by-8'}
    found = {}
    pos = out = 0
    while pos < len(text) and len(found) < len(targets) and out <= area + 2:
        bl, bo = compress._find_repeatable_block(text, pos)
        if bl >= 3:
            out += 2
            pos += bl
        else:
            out += 1 if text[pos] in table else 2
            pos += 1
        if out in targets and out not in found:
            found[out] = text[:pos]
        elif out + 1 in targets and out + 1 not in found:
            found[out + 1] = text[:pos] + b'!'       # one more literal (a lone last character cannot start a block)
    out = [('tuned-%s@%d' % (targets[k], k), v) for k, v in sorted(found.items())]
    # the same oversize text mentioning _update60 (the compatibility suffix is compressed after it): still must be refused
    for k, v in sorted(found.items()):
        if k > area - 8:
            out.append(('tuned-update60-%s' % targets[k], b'--_update60 ' + v[2:]))
            break
    return out


def random_label(rnd, dirpath, k):
    rows = [bytes(rnd.randrange(256) for _ in range(W * 4)) for _ in range(H)]
    p = os.path.join(dirpath, 'label%d.png' % k)
    with open(p, 'wb') as f:
        f.write(refpng.encode_png(W, H, rows))
    return p


def _mk(item):
    k, name, code, pat, ov, version, dest_existing, seed, tmp = item
    from pico8.game import file as gfile
    from pico8.game import compress
    from pico8.game.formatter import p8png
    rnd = random.Random(seed)
    d = tempfile.mkdtemp(prefix='c04_', dir=tmp)
    path = os.path.join(d, 'out.p8.png')
    mem = cartio.memory(pat, ov)
    try:
        g = cartio.make_game(mem, code, None, version)
    except Exception as e:  # noqa
        return ('ood', 'cart not constructible: %s' % e, None)
    code = cartio.game_code(g)
    if dest_existing:
        os.rename(random_label(rnd, d, k), path)
        label_src = open(path, 'rb').read()
    else:
        label_src = open(p8png.EMPTY_LABEL_FNAME, 'rb').read()
    comp_len = -1
    rec = {'focus': 'C04', 'outcome': 'ok', 'mem': list(mem), 'code': list(code), 'version': version, 'rawLen': len(code), 'compLen': comp_len,
           'area': [], 'pixels': [], 'rb': {'checked': False, 'diff': [], 'code': [], 'version': -1}}
    before = open(path, 'rb').read() if dest_existing else None
    try:
        gfile.to_file(g, path)
    except Exception as e:  # noqa
        rec['outcome'] = 'error'
        try:
            rec['compLen'] = len(compress.compress_code(code))
        except Exception:
            rec['compLen'] = -1
        after = open(path, 'rb').read() if os.path.exists(path) else None
        return ('ok', rec, {'name': name, 'error': '%s: %s' % (type(e).__name__, str(e)[:80]), 'dest_changed': after != before})
    data = open(path, 'rb').read()
    try:
        w, h, ch, rows = refpng.decode_png(data)
    except Exception as e:  # noqa
        return ('invalid-png', 'written file is not a valid PNG: %s' % e, {'name': name})
    if (w, h, ch) != (W, H, 4):
        return ('invalid-png', 'written PNG is %dx%d with %d channels' % (w, h, ch), {'name': name})
    idxs = sample_idxs(rnd, 300)
    rec['pixels'], _ = png_pixels(data, label_src, idxs)
    # reassemble the code area from the pixels (only to hand it to the spec's decoder)
    flat = b''.join(rows)
    area = bytearray()
    for i in range(0x4300, 0x8000):
        r, g_, b, a = flat[i * 4:i * 4 + 4]
        area.append((a & 3) << 6 | (r & 3) << 4 | (g_ & 3) << 2 | (b & 3))
    rec['area'] = list(bytes(area).rstrip(b'\x00'))
    # fit rule inputs on the ok path: what was stored is what fitted (the compressed size is the stored stream)
    rec['compLen'] = (len(rec['area']) - 8) if rec['area'][:4] == [58, 99, 58, 0] else 0x10000
    if '@' in name and rec['area'][:4] == [58, 99, 58, 0]:
        rec['compLen'] = int(name.split('@')[1])       # stream size known from the tuning pass (the area read from the pixels is cut at 0x3d00)
    if rec['area'][:3] == [58, 99, 58] and len(rec['area']) < 8:
        rec['area'] = list(area[:8])
    try:
        g2 = gfile.from_file(path)
        rec['rb'] = {'checked': True, 'diff': cartio.diff_list(mem, cartio.game_memory(g2)), 'code': list(cartio.game_code(g2)), 'version': g2.version}
    except Exception as e:  # noqa
        rec['rb'] = {'checked': True, 'diff': [[-2, 0]], 'code': [], 'version': -2}
        return ('ok', rec, {'name': name, 'read_error': '%s: %s' % (type(e).__name__, str(e)[:80])})
    return ('ok', rec, {'name': name})


def run(ctx):
    rnd = random.Random(ctx.seed)
    ctx.rule = ('carts x code sizes (empty, 1 char, short, compressible far beyond the area, incompressible at 0x3cff..0x3d01 and beyond, _update60, CR) x '
                '{destination absent, destination existing with random pixels}; non-trivial = outcome, sampled pixels, code area and read-back accepted by TracePng')
    ctx.assumptions = ['TracePng.tla states the .p8.png layout, channel packing and code-area formats; PNG container validity is decided by refpng.py (stdlib zlib)',
                       'the fit rule uses the implementation\'s own compressed size; versions 0..255; code without NUL bytes']
    items = []
    all_codes = codes(ctx, rnd) + tuned_boundary_codes(ctx, rnd)
    ctx.notes['tuned_boundary_codes'] = [n for n, _ in all_codes if n.startswith('tuned')]
    for k, (name, code) in enumerate(all_codes):
        for dest in (False, True):
            if ctx.quick and dest and (k % 2 or name.startswith('tuned')):
                continue
            pat = (rnd.randrange(256), rnd.randrange(256))
            ov = cartio.sparse_overrides(rnd, 40)
            if k % 3 == 1:
                ov.update(cartio.default_row_overrides(rnd))
            items.append((len(items), name, code, pat, ov, rnd.choice((0, 8, 16, 33, 41, 255)), dest, ctx.seed * 977 + k, ctx.tmp))
    res = core.parmap(_mk, items, procs=16, chunksize=1) if len(items) >= 8 else [_mk(x) for x in items]
    traces, meta = [], []
    for it, (st, a, info) in zip(items, res):
        if st == 'ood':
            ctx.out_of_domain += 1
        elif st == 'invalid-png':
            ctx.violation('invalid-png', '%s (%s)' % (a, it[1]), {'kind': 'png', 'name': it[1]})
        else:
            if a['outcome'] == 'error' and info.get('dest_changed'):
                ctx.violation('refused-but-destination-changed/%s' % it[1].split('-')[0], 'write failed (%s) and the destination changed' % info.get('error'), {'kind': 'png', 'name': it[1]})
            traces.append(a)
            meta.append((it, info))
    ctx.evaluations += len(items)
    # canaries (copies of an accepted trace)
    base_i = next((i for i, t in enumerate(traces) if t['outcome'] == 'ok' and t['rb']['checked'] and t['pixels'] and len(t['area']) > 12), None)
    cans = []
    if base_i is not None:
        b = traces[base_i]
        c = json.loads(json.dumps(b)); c['pixels'][3]['b'] ^= 2; cans.append((c, 'pixel-bits'))
        c = json.loads(json.dumps(b)); c['pixels'][4]['a'] ^= 128; cans.append((c, 'label-bits'))
        c = json.loads(json.dumps(b)); c['rb']['code'] = c['rb']['code'][:-2] + [120, 10]; cans.append((c, 'readback-code'))
        c = json.loads(json.dumps(b)); c['outcome'] = 'error'; cans.append((c, 'refused-fitting-cart'))
        c = json.loads(json.dumps(b)); c['rb']['diff'] = [[5, 1]]; cans.append((c, 'readback-memory'))
    v = ctx.validate('TracePng', traces + [x for x, _ in cans], max_bytes=2500000)
    ctx.traces -= len(cans)
    if base_i is not None and v[base_i][0] == 'ok':
        for (x, want), vv in zip(cans, v[len(traces):]):
            ctx.canary(vv[0] == want, want)
    for (it, info), vv, tr in zip(meta, v, traces):
        name = it[1]
        if vv[0] == 'ok':
            ctx.nontrivial += 1
        else:
            cls = name.split('-')[0] if not name.startswith('rand') else 'rand'
            form = 'error' if tr['outcome'] == 'error' else ('compressed' if tr['area'][:4] == [58, 99, 58, 0] else 'raw')
            ctx.violation('%s/%s/%s' % (vv[0], cls, form), '.p8.png write of cart "%s" (%d bytes of code, compressed %d, destination %s) rejected: %s%s' % (
                name, tr['rawLen'], tr['compLen'], 'existing' if it[6] else 'absent', vv[0],
                ('; error: ' + info['error']) if info.get('error') else (('; read error: ' + info['read_error']) if info.get('read_error') else '')),
                {'kind': 'png', 'name': name, 'code_len': tr['rawLen'], 'dest_existing': it[6]})
    if traces:
        ctx.sample({'cart': meta[0][0][1], 'outcome': traces[0]['outcome'], 'rawLen': traces[0]['rawLen'], 'compLen': traces[0]['compLen'], 'pixels_sampled': len(traces[0]['pixels']), 'verdict': v[0][0]})
    chain(ctx)
    from .. import system
    system.run(ctx, 'C04')
    from .. import session
    session.run(ctx, 'png', nseq=(24 if ctx.quick else 300))
    # label-picture histories: only commands that write or replace .p8.png files (incl. the user's cp), deeper
    system.run(ctx, 'C04', nseq=(64 if ctx.quick else 400), depth=7, mode='png')


def chain(ctx):
    """.p8 -> .p8.png -> .p8 through p8tool / file.*: code and data regions preserved"""
    from pico8.game import file as gfile
    d = tempfile.mkdtemp(prefix='c04chain_', dir=ctx.tmp)
    rnd = random.Random(ctx.seed + 2)
    mem = bytearray(cartio.memory((11, 5), cartio.sparse_overrides(rnd, 80)))
    for a in range(0x3103, 0x3200, 4):
        mem[a] &= 127
    code = open(os.path.join(core.VERIF, 'fixtures', 'lua', 'extra_game.lua'), 'rb').read()
    try:
        g = cartio.make_game(bytes(mem), code, None, 16)
        p1, p2, p3 = os.path.join(d, 'a.p8'), os.path.join(d, 'b.p8.png'), os.path.join(d, 'c.p8')
        gfile.to_file(g, p1)
        gfile.to_file(gfile.from_file(p1), p2)
        gfile.to_file(gfile.from_file(p2), p3)
        g3 = gfile.from_file(p3)
    except Exception as e:  # noqa
        ctx.violation('chain-raises/%s' % type(e).__name__, '.p8 -> .p8.png -> .p8 raised %s' % str(e)[:100], {'kind': 'chain'})
        return
    rec = {'focus': 'C04', 'outcome': 'ok', 'mem': list(mem), 'code': list(code), 'version': 16, 'rawLen': len(code), 'compLen': 0, 'area': list(code),
           'pixels': [], 'rb': {'checked': True, 'diff': cartio.diff_list(bytes(mem), cartio.game_memory(g3)), 'code': list(cartio.game_code(g3)), 'version': g3.version}}
    v = ctx.validate('TracePng', [rec])
    if v[0][0] == 'ok':
        ctx.nontrivial += 1
    else:
        ctx.violation('chain/' + v[0][0], '.p8 -> .p8.png -> .p8 changed the cart (%s)' % v[0][0], {'kind': 'chain'})


def replay(ctx, path):
    run(ctx)
