"""C01 - luamin keeps the program: same tokens modulo renaming, nothing glued.

Pipeline A+B: GenProg programs (exhaustive small, short-if heavy, simulated deep) rendered in
layouts that force the minifier to decide every separator, minified with the real token writer
under {default, keep-all-names, keep-names-from-file}; every (input, output) pair is judged by
the TraceMinify acceptor (focus C01: kinds, spellings, values, nothing fused or swallowed, line
scopes, stats). Layer I: MCMinify (the writer's separator automaton over token spelling classes)
is model-checked against re-lexing; sequences on which the model glues are replayed into the
real writer inside grammar-valid carriers.
"""
import json
import os
import random

from .. import core, progs, minify, lexref
from .c07 import fixture_sources, layout_mutations

FOCUS = 'C01'


def sig_for(v, src, out):
    """signature = clause + spelling classes of the two input tokens around the failing position"""
    clause, n, i, o = v[0], v[1], v[2], v[3]
    a = out[max(o - 4, 0):o + 5]
    return '%s/%s' % (clause, lexref.shape(a))


def _mk(item):
    name, src, scopes, cfg, focus, kdir, idx = item
    raw = b''
    kf = None
    if cfg == 'keepfile':
        names = minify.names_in(src)
        rnd = random.Random(idx)
        keep = tuple(names[idx % 2::2]) + ((b'a', b'b') if idx % 3 else ())
        raw = minify.keep_file_bytes(keep, rnd, style=(0 if idx % 4 == 0 else None))
        kf = os.path.join(kdir, 'k%d.txt' % idx)
        with open(kf, 'wb') as f:
            f.write(raw)
    out, err = minify.run_minifier(src, keep_all=(cfg == 'keepall'), keep_file=kf)
    if kf:
        os.unlink(kf)
    if out is None:
        return ('load' if err.startswith('load:') else 'raises', err, None)
    return ('ok', minify.make_trace(src, out, focus, scopes, keep_all=(cfg == 'keepall'), keep_file=raw), out)


def judge(ctx, cases, cfgs, keepfiles, focus=FOCUS, label=''):
    """cases: (name, src, scopes). Minify under each cfg, validate in TLC batches."""
    items = []
    for name, src, scopes in cases:
        for cfg in cfgs:
            items.append((name, src, scopes, cfg, focus, keepfiles.dir, len(items)))
    traces, meta = [], []
    for it, (st, a, out) in zip(items, core.parmap(_mk, items)):
        name, src, scopes, cfg = it[:4]
        if st == 'load':
            ctx.out_of_domain += 1      # not loadable: C07 / C08's business
        elif st == 'raises':
            ctx.violation('writer-raises/%s' % a.split(':')[1].strip(), 'minifier raised on %s: %s' % (name, a),
                          {'kind': 'minify', 'src': list(src), 'cfg': cfg})
        else:
            traces.append(a)
            meta.append((name, src, out, cfg))
    if not traces:
        return []
    verdicts = ctx.validate('TraceMinify', traces)
    for (name, src, out, cfg), v in zip(meta, verdicts):
        if v[0] == 'ok':
            ctx.nontrivial += 1
        elif v[0] in ('ood', 'misaligned'):
            ctx.out_of_domain += 1
        else:
            o = v[3]
            ctx.violation(sig_for(v, src, out),
                          'luamin output rejected (%s) for %s [%s] at output offset %d: ...%r...' % (v[0], name, cfg, o, out[max(o - 12, 0):o + 12]),
                          {'kind': 'minify', 'src': list(src), 'cfg': cfg})
    return list(zip(meta, verdicts))


def canaries(ctx, focus=FOCUS):
    src = b'-- t\n-- b\nfoo = bar - 1 if (foo) bar = 2\nbaz = "s" .. foo\n'
    out = b'-- t\n-- b\na=b-1 if(a)b=2\nc="s"..a\n'      # (hand-written: canaries never depend on the code under test)
    sc = [[6, 12]]
    good = minify.make_trace(src, out, focus, sc)
    c1 = minify.make_trace(src, out.replace(b'-1', b'+1'), focus, sc)
    k = out.rstrip(b'\n').rindex(b'\n')
    c2 = minify.make_trace(src, out[:k] + b' ' + out[k + 1:], focus, sc)
    v = ctx.validate('TraceMinify', [good, c1, c2])
    ctx.traces -= 3
    if v[0][0] != 'ok':
        raise core.MachineryError('canary base trace not accepted: %s' % (v[0],))
    ctx.canary(v[1][0] == 'spelling', 'operator changed in output')
    ctx.canary(v[2][0] == 'scope-join', 'line scope joined with the next line')


def adjacency_coverage(cases):
    """ordered pairs of (kind:spelling-class) of adjacent significant tokens in the inputs"""
    pairs = set()
    for name, src, _ in cases:
        toks, err = lexref.lex_impl([src])
        if toks is None:
            continue
        sig = [t for t in toks if lexref.kind_of(t) in lexref.SIG]
        for a, b in zip(sig, sig[1:]):
            pairs.add((lexref.kind_of(a) + ':' + lexref.shape(a.code), lexref.kind_of(b) + ':' + lexref.shape(b.code)))
    return pairs


def gen_sets(ctx):
    if ctx.quick:
        sets = [('all<=5', progs.generate(ctx, 'all', 5)),
                ('expr<=7', progs.generate(ctx, 'expr', 7)),
                ('shortif<=13', progs.generate(ctx, 'shortif', 13)),
                ('sim<=40', progs.generate(ctx, 'all', 40, max_depth=4, simulate=300))]
    else:
        sets = [('all<=6', progs.generate(ctx, 'all', 6)),
                ('expr<=8', progs.generate(ctx, 'expr', 8)),
                ('skeleton<=8', progs.generate(ctx, 'skeleton', 8)),
                ('shortif<=15', progs.generate(ctx, 'shortif', 15)),
                ('sim<=60', progs.generate(ctx, 'all', 60, max_depth=5, simulate=3000))]
    sets.append(progs.wide_set(ctx, 60 if ctx.quick else 600))
    return sets


CARRIERS_FN = [(b'foreach(t,function(v)\n', b'end)\n', 8), (b't={k=function(a)\n', b'end,2}\n', 9), (b'x=(function()\n', b'end)()\n', 6),
               (b'a[function()\n', b'end]=1\n', 5), (b'f(1,{function(...)\n', b'end},(2))\n', 9)]


def nested_cases(cases, rnd, n):
    """programs with line-scoped shorthands placed inside a function literal that itself sits inside open brackets
    (a callback argument, a table field, a parenthesised or indexed expression): the line scopes are the generator's,
    shifted by the carrier's tokens"""
    pool = [c for c in cases if c[2]]
    out = []
    for k in range(min(n, len(pool))):
        name, src, scopes = pool[rnd.randrange(len(pool))]
        pre, suf, npre = CARRIERS_FN[k % len(CARRIERS_FN)]
        body = src if src.endswith(b'\n') else src + b'\n'
        out.append(('nested:%s' % name, pre + body + suf, [[a + npre, b + npre] for a, b in scopes]))
    return out


def fixture_cases(ctx, rnd):
    out = []
    for name, src in fixture_sources():
        if name == 'lexer_valid.lua':
            continue
        for k, s in enumerate([src] + layout_mutations(src, rnd, 2 if ctx.quick else 8)):
            try:
                out.append(('%s~%d' % (name, k), s, minify.tree_scopes(s)))
            except Exception:
                ctx.out_of_domain += 1
    return out


MC_CFG = '''SPECIFICATION Spec
CONSTANTS N = %d
Rule = "%s"
CONSTRAINT %s
CHECK_DEADLOCK FALSE
'''
CARRIERS = ('x = a %s b', 'x = %s', 'x = %s b', 'x = a %s', 't[%s] = 1', 'f(%s)', 'x = {%s}', 'return %s', '%s = 1', '%s()', 'x = a[%s]',
            'if a %s b then end', 'x = a(%s)', '%s', 'x = a %s (b)', 'x = (a) %s b', 'x = a %s 1', 'x = 1 %s a', 'goto %s', 'local %s', 'x = # %s')


def layer_i(ctx):
    """Layer I: MCMinify.tla = the writer's separator automaton over token spelling classes.
    (a) every emission of the model for all sequences of length <= 2 is replayed into the real
        writer on the same token stream (code ~ model: MODEL-DRIFT only);
    (b) TLC reports the sequences on which the model's output does not re-lex to the input
        (model violates Layer P); each is embedded in carrier programs; a carrier that the real
        parser accepts completely AND whose tree TraceSyn accepts is a valid program, and is
        then judged like any other program.
    The pinned-tree rule (no fuse check) must yield strictly more glue sequences."""
    from .. import ast2deriv
    from pico8.lua import lua
    r = ctx.tlc('MCMinify', MC_CFG % (2, 'code', 'EmitAll'), name='MCMinify_emit')
    drift = 0
    for rec in r.jsons:
        toks = []
        ok = True
        for t in rec['toks']:
            lt, err = lexref.lex_impl([bytes(t['w'])])
            if lt is None or len(lt) != 1:
                ok = False
                break
            toks.append(lt[0])
        if not ok:
            continue
        try:
            w = lua.LuaMinifyTokenWriter(tokens=toks, root=None, args={'keep_all_names': True})
            got = b''.join(w.to_lines())
        except Exception as e:  # noqa
            got = b'<%s>' % type(e).__name__.encode()
        if got != bytes(rec['out']):
            drift += 1
            ctx.drift('token writer differs from MCMinify.tla on %s: model %r, code %r' % ([bytes(t['w']) for t in rec['toks']], bytes(rec['out']), got))
    ctx.notes['layer_i_emissions_replayed'] = len(r.jsons)
    ctx.traces += len(r.jsons) - drift
    n = 2 if ctx.quick else 3
    g = ctx.tlc('MCMinify', MC_CFG % (n, 'code', 'Report'), name='MCMinify_glue')
    gp = ctx.tlc('MCMinify', MC_CFG % (2, 'pinned', 'Report'), name='MCMinify_glue_pinned_rule')
    ctx.mc_results.append({'name': 'MCMinify', 'states': g.distinct, 'result': '%d token sequences (length <= %d) on which the model of the current separator rule glues; %d with the rule of the pinned tree (length 2)' % (len(g.jsons), n, len(gp.jsons))})
    if len(gp.jsons) <= len([x for x in g.jsons if len(x['glue']) == 2]):
        raise core.MachineryError('MCMinify: the pinned-tree rule does not glue more than the current rule')
    cases = []
    seen = set()
    for rec in g.jsons:
        body = b' '.join(bytes(t['w']) for t in rec['glue'])
        for c in CARRIERS:
            src = (c.encode() % body) + b'\n'
            if src in seen:
                continue
            seen.add(src)
            try:
                tr = ast2deriv.trace(src)
            except Exception:
                continue
            if tr['consumed'] != len(tr['toks']):
                continue
            cases.append((src, tr))
    if cases:
        v = ctx.validate('TraceSyn', [{'toks': tr['toks'], 'deriv': tr['deriv'], 'consumed': tr['consumed']} for _, tr in cases])
        valid = [('glue-carrier:%d' % k, src, []) for k, ((src, tr), vv) in enumerate(zip(cases, v)) if vv[0] == 'ok']
    else:
        valid = []
    ctx.notes['layer_i_glue_sequences'] = len(g.jsons)
    ctx.notes['layer_i_valid_carriers_judged'] = len(valid)
    if valid:
        judge(ctx, valid, ('default',), minify.KeepFiles(ctx))


def run(ctx):
    rnd = random.Random(ctx.seed)
    ctx.rule = ('GenProg programs (all derivations <= N tokens, expression-heavy, short-if-heavy, simulated deep) rendered with one space or one newline '
                'between all tokens (so that every separator is the minifier\'s decision), plus fixtures and layout mutations, x {default, keep-all-names, keep-names-from-file}; '
                'non-trivial = TraceMinify reached the end of both token streams (verdict ok)')
    ctx.assumptions = ['P8Lex.tla is the lexical grammar; line-scope extents come from the generator (generated programs) or from the C08-validated tree (fixtures)',
                       '`?` print statements are not generated']
    keepfiles = minify.KeepFiles(ctx)
    cases = minify.program_cases(ctx, rnd, gen_sets(ctx), ('spaced', 'lines', 'comments', 'spaced', 'semis'))
    cfgs = ('default', 'keepall', 'keepfile')
    res = judge(ctx, cases, ('default',), keepfiles)
    sub = cases[::7]
    judge(ctx, sub, ('keepall', 'keepfile'), keepfiles)
    judge(ctx, fixture_cases(ctx, rnd), cfgs, keepfiles)
    judge(ctx, nested_cases(cases, rnd, 150 if ctx.quick else 2000) + minify.operator_adjacency_cases(), ('default',), keepfiles)
    layer_i(ctx)
    canaries(ctx)
    ctx.evaluations += len(cases) + 2 * len(sub)
    pairs = adjacency_coverage(cases)
    ctx.notes['adjacent_token_class_pairs_exercised'] = len(pairs)
    ctx.notes['generated_sets'] = [{'set': l, 'behaviours': len(b)} for l, b in gen_sets(ctx)]
    if res:
        (name, src, out, cfg), v = res[len(res) // 2]
        ctx.sample({'src': src.decode('latin1'), 'out': out.decode('latin1'), 'cfg': cfg, 'verdict': v[0]})
    cli_path(ctx, keepfiles)
    from .. import system
    system.run(ctx, 'C01', nseq=(40 if ctx.quick else 300))


def cli_path(ctx, keepfiles):
    """Once through `p8tool luamin` and `p8tool build --lua-minify` on a temp cart."""
    import tempfile
    from pico8 import tool
    src = open(os.path.join(core.VERIF, 'fixtures', 'lua', 'every_node.lua'), 'rb').read()
    d = tempfile.mkdtemp(prefix='c01_', dir=ctx.tmp)
    p = os.path.join(d, 'in.p8')
    with open(p, 'wb') as f:
        f.write(b'pico-8 cartridge // http://www.pico-8.com\nversion 8\n__lua__\n' + src + b'__gfx__\n')
    results = []
    for argv, outp in ((['--quiet', 'luamin', p], os.path.join(d, 'in_fmt.p8')),
                       (['--quiet', 'build', os.path.join(d, 'b.p8'), '--lua', p, '--lua-minify'], os.path.join(d, 'b.p8'))):
        try:
            rc = tool.main(argv)
        except SystemExit as e:
            rc = e.code
        except Exception as e:  # noqa
            rc = 'exception %s' % type(e).__name__
        if rc not in (0, None) or not os.path.exists(outp):
            ctx.violation('cli-fails/' + argv[1], 'p8tool %s failed on the every-node fixture (rc=%s)' % (argv[1], rc), {'kind': 'cli', 'argv': argv[1:]})
            continue
        data = open(outp, 'rb').read()
        a = data.index(b'__lua__\n') + 8
        b = data.index(b'\n__gfx__') + 1 if b'\n__gfx__' in data else len(data)
        results.append((argv[1], data[a:b]))
    # the same two commands on a source without a final newline (the cart writer has to supply it before the next section)
    src2 = b'-- t\nfunction f(a) return a end\nx=f(1) y=2'
    p2 = os.path.join(d, 'nonl.lua')
    open(p2, 'wb').write(src2)
    results2 = []
    for fmt_ext in ('.p8', '.p8.png'):
        outp = os.path.join(d, 'b2' + fmt_ext)
        try:
            rc = tool.main(['--quiet', 'build', outp, '--lua', p2, '--lua-minify'])
        except SystemExit as e:
            rc = e.code
        except Exception as e:  # noqa
            rc = 'exception %s' % type(e).__name__
        if rc not in (0, None) or not os.path.exists(outp):
            ctx.violation('cli-fails/build-nonl', 'p8tool build --lua-minify failed on a source without final newline (rc=%s)' % rc, {'kind': 'cli', 'argv': ['build']})
            continue
        try:
            from pico8.game import file as gfile
            from .. import cartio
            results2.append(('build' + fmt_ext, cartio.game_code(gfile.from_file(outp))))
        except Exception as e:  # noqa
            ctx.violation('cli-build-nonl/unreadable%s' % fmt_ext, 'the cart built with --lua-minify from a source without final newline cannot be read back: %s' % type(e).__name__, {'kind': 'cli'})
    traces = [minify.make_trace(src, out, FOCUS, minify.tree_scopes(src)) for _, out in results] + [minify.make_trace(src2, out, FOCUS, []) for _, out in results2]
    results = results + results2
    if traces:
        v = ctx.validate('TraceMinify', traces)
        for (cmd, out), vv in zip(results, v):
            if vv[0] != 'ok':
                ctx.violation('cli-%s/%s' % (cmd, vv[0]), 'p8tool %s output rejected (%s)' % (cmd, vv[0]), {'kind': 'cli', 'cmd': cmd})
            else:
                ctx.nontrivial += 1


def replay(ctx, path):
    rec = json.load(open(path))['replay']
    src = bytes(rec['src'])
    keepfiles = minify.KeepFiles(ctx)
    try:
        sc = minify.tree_scopes(src)
    except Exception:
        sc = []
    judge(ctx, [('replay', src, sc)], (rec.get('cfg', 'default'),), keepfiles)
