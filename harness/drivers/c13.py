"""C13 - build takes each cart section from exactly the source the arguments name.

Build.tla: `p8tool build OUT` as a function from per-section arguments {unspecified, from a .p8
cart, from a .p8.png cart, --empty-X, (lua: from a .lua file)} plus one optional unusable
argument {both --X and --empty-X, missing file, wrong extension} x {OUT absent, existing} x
{OUT .p8, OUT .p8.png} to the expected provenance of every section and of the label. TLC prints
all 109568 configurations with their expectation; the harness materialises sources with distinct
contents in every section, runs pico8.tool.main(["build", ...]) and maps what OUT holds
afterwards back to provenance ids.
"""
import io
import json
import os
import random
import shutil
import tempfile

from .. import core, cartio, refpng

GEN = '''SPECIFICATION Spec
CONSTANTS MaxSpec = %d
MinSpec = %d
NoErr = %s
CONSTRAINT Emit
CHECK_DEADLOCK FALSE
'''
SECS = ('lua', 'gfx', 'gff', 'map', 'sfx', 'music')
REG = {'gfx': (0, 0x2000), 'map': (0x2000, 0x3000), 'gff': (0x3000, 0x3100), 'music': (0x3100, 0x3200), 'sfx': (0x3200, 0x4300)}
_SB = {}


def mem_for(tag):
    pat = {'p8': (3, 10), 'png': (5, 77), 'prev': (7, 130)}[tag]
    m = bytearray(cartio.memory(pat, {}))
    for a in range(0x3103, 0x3200, 4):
        m[a] &= 127                     # (the bit the .p8 format cannot hold)
    return bytes(m)


LUA = {'p8': b'-- from p8  \na=1 print(a)\t\n s=[[x  \n]] \n' * 2, 'png': b'-- from png\nb=2 print(b) print(b) print(b) print(b)\n' * 3, 'luafile': b'-- from lua\nc=3\n', 'prev': b'-- previous \t\nprev=0  \n' * 2,
       'empty': b''}


def sandbox(tmp):
    if 'S' in _SB:
        return _SB['S']
    from pico8.game import file as gfile
    S = tempfile.mkdtemp(prefix='c13_', dir=tmp)
    gfile.to_file(cartio.make_game(mem_for('p8'), LUA['p8'], None, 8), os.path.join(S, 'a.p8'))
    gfile.to_file(cartio.make_game(mem_for('png'), LUA['png'], None, 8), os.path.join(S, 'b.p8.png'))
    with open(os.path.join(S, 'c.lua'), 'wb') as f:
        f.write(LUA['luafile'])
    with open(os.path.join(S, 'big.lua'), 'wb') as f:
        f.write(big_lua())
    # previous OUT files: a .p8 with a label section, a .p8.png with a random picture
    prev_label = cartio.label_bytes((9, 9), {})
    gfile.to_file(cartio.make_game(mem_for('prev'), LUA['prev'], prev_label, 8), os.path.join(S, 'prev.p8'))
    rnd = random.Random(3)
    rows = [bytes(rnd.randrange(256) for _ in range(160 * 4)) for _ in range(205)]
    with open(os.path.join(S, 'prev.p8.png'), 'wb') as f:
        f.write(refpng.encode_png(160, 205, rows))
    gfile.to_file(cartio.make_game(mem_for('prev'), LUA['prev'], None, 8), os.path.join(S, 'prev.p8.png'))
    from pico8.game import game as pgame
    gfile.to_file(pgame.Game.make_empty_game(), os.path.join(S, 'e.p8'))      # a source cart whose sections are all blank
    with open(os.path.join(S, 'bad.txt'), 'wb') as f:
        f.write(b'not a cart')
    _SB['S'] = S
    return S


def big_lua():
    """code that is stored in a .p8.png close to the end of the code area (incompressible, so it is stored raw)"""
    if 'big' not in _SB:
        rnd = random.Random(77)
        _SB['big'] = b'--' + bytes(rnd.choice(bytes(range(33, 127))) for _ in range(15560)) + b'\nbig=3\n'
    return _SB['big']


def _case(item):
    cfg, tmp = item
    from pico8 import tool
    from pico8.game import file as gfile
    from pico8.game.formatter import p8png
    S = sandbox(tmp)
    d = tempfile.mkdtemp(prefix='b_', dir=S)
    ext = '.p8' if cfg['fmt'] == 'p8' else '.p8.png'
    out = os.path.join(d, 'out' + ext)
    if cfg['out0'] == 'existing':
        shutil.copy(os.path.join(S, 'prev' + ext), out)
    before = open(out, 'rb').read() if os.path.exists(out) else None
    argv = ['--quiet', 'build', out]
    for s in SECS:
        a = cfg['args'][s]
        src = {'p8': 'a.p8', 'png': 'b.p8.png', 'luafile': ('big.lua' if cfg.get('big') else 'c.lua'), 'blank': 'e.p8'}
        if a in src:
            argv += ['--' + s, os.path.join(S, src[a])]
        elif a == 'empty':
            argv += ['--empty-' + s]
        elif a == 'both':
            argv += ['--' + s, os.path.join(S, 'a.p8'), '--empty-' + s]
        elif a == 'missing':
            argv += ['--' + s, os.path.join(S, 'nothere.p8')]
        elif a == 'badext':
            argv += ['--' + s, os.path.join(S, 'bad.txt')]
        elif a == 'luaext':
            argv += ['--' + s, os.path.join(S, 'c.lua')]
    rc = None
    err = ''
    try:
        rc = tool.main(argv)
    except SystemExit as e:
        rc = e.code
    except Exception as e:  # noqa
        rc, err = 'exception', '%s: %s' % (type(e).__name__, str(e)[:80])
    after = open(out, 'rb').read() if os.path.exists(out) else None
    obs = {'rc': rc, 'err': err, 'changed': after != before, 'sections': {}, 'label': None}
    if rc in (0, None) and after is not None:
        try:
            g = gfile.from_file(out)
            mem = cartio.game_memory(g)
            code = cartio.game_code(g)
            for s in SECS:
                if s == 'lua':
                    ids = [k for k, v in LUA.items() if code.rstrip(b'\n') == (big_lua() if (k == 'luafile' and cfg.get('big')) else v).rstrip(b'\n')]
                else:
                    a, b = REG[s]
                    ids = [k for k in ('p8', 'png', 'prev') if mem[a:b] == mem_for(k)[a:b]]
                    emp = cartio.game_memory(_empty())[a:b]
                    if mem[a:b] == emp:
                        ids.append('empty')
                obs['sections'][s] = ids
            if ext == '.p8':
                lab = bytes(g.label._data) if g.label is not None else None
                obs['label'] = 'prev' if lab == cartio.label_bytes((9, 9), {}) else ('blank' if lab is None or not any(lab) else 'other')
            else:
                w, h, ch, rows = refpng.decode_png(after)
                pw, ph, pch, prows = refpng.decode_png(open(os.path.join(S, 'prev.p8.png'), 'rb').read())
                bw, bh, bch, brows = refpng.decode_png(open(p8png.EMPTY_LABEL_FNAME, 'rb').read())

                def upper(rows_, c):
                    return [bytes(x & 0xfc for x in r) for r in rows_] if c == 4 else None
                u = upper(rows, ch)
                obs['label'] = 'prev' if u == upper(prows, pch) else ('blank' if u == upper(brows, bch) else 'other')
        except Exception as e:  # noqa
            obs['err'] = 'readback %s: %s' % (type(e).__name__, str(e)[:80])
    shutil.rmtree(d, ignore_errors=True)
    return obs


_E = {}


def _empty():
    if 'g' not in _E:
        from pico8.game import game
        _E['g'] = game.Game.make_empty_game()
    return _E['g']


def run(ctx):
    core.quiet_picotool()
    rnd = random.Random(ctx.seed)
    ctx.rule = ('configurations printed by TLC from Build.tla: all valid assignments of {unspecified, .p8, .p8.png, a source whose section is blank, empty, (lua: .lua)} to the six sections x OUT absent/existing x OUT format, '
                'and those with exactly one unusable argument; quick = all with <= 2 specified sections + random ones with 3; non-trivial = built, read back and provenance equal to the expectation')
    ctx.assumptions = ['contents are distinct per source and section, so provenance can be read off OUT', 'OUT is read back with picotool\'s own readers (their fidelity is C03 / C04 / C16)']
    r = ctx.tlc('Build', GEN % ((3, 0, 'FALSE') if ctx.quick else (6, 0, 'FALSE')), name='GenBuild')
    full = []
    if ctx.quick:
        # quick also samples the configurations that name every section (no section of OUT survives, its label must)
        full = ctx.tlc('Build', GEN % (6, 5, 'TRUE'), name='GenBuild_5_or_6_named').jsons
    seen = set()
    cfgs = []
    for x in r.jsons:
        k = json.dumps(x, sort_keys=True)
        if k not in seen:
            seen.add(k)
            cfgs.append(x)
    valid = [c for c in cfgs if not c['fails']]
    bad = [c for c in cfgs if c['fails']]
    ctx.notes['configurations_enumerated'] = {'valid': len(valid), 'with_one_unusable_argument': len(bad)}
    if ctx.quick:
        small = [c for c in valid if sum(1 for s in SECS if c['args'][s] != 'unspec') <= 2]
        pick = small + rnd.sample(valid, 250) + rnd.sample(bad, 150) + rnd.sample(full, 160)
    else:
        pick = valid + rnd.sample(bad, 3000)
    # the .lua source once more as a file whose code fills the .p8.png code area almost to its end
    bigs = [dict(c, big=True) for c in valid if c['fmt'] == 'png' and c['args']['lua'] == 'luafile' and sum(1 for s_ in SECS if c['args'][s_] != 'unspec') <= 2][:(3 if ctx.quick else 40)]
    pick = pick + bigs
    res = core.parmap(_case, [(c, ctx.tmp) for c in pick], procs=16)
    ctx.evaluations += len(pick)
    good = 0
    for c, o in zip(pick, res):
        spec = sorted((s, c['args'][s]) for s in SECS if c['args'][s] != 'unspec')
        desc = '%s OUT %s: %s' % (c['fmt'], c['out0'], spec)
        if c['fails']:
            if o['rc'] in (0, None):
                ctx.violation('unusable-argument-accepted/%s' % [c['args'][s] for s in SECS if c['args'][s] in ('both', 'missing', 'badext', 'luaext')][0],
                              'build succeeded although an argument is unusable: %s' % desc, {'kind': 'build', 'cfg': c})
            elif o['changed']:
                ctx.violation('failed-build-touched-out', 'build failed but OUT changed: %s' % desc, {'kind': 'build', 'cfg': c})
            else:
                good += 1
            continue
        if o['rc'] not in (0, None) or o['err']:
            kind = 'lua-%s' % c['args']['lua'] if c['fmt'] == 'png' else 'p8'
            ctx.violation('valid-build-fails/%s/%s' % (c['fmt'], (o['err'] or 'rc').split(':')[0]), 'valid build failed (rc %s %s): %s' % (o['rc'], o['err'], desc), {'kind': 'build', 'cfg': c})
            continue
        wrong = [(s, c['expect'][s], o['sections'].get(s)) for s in SECS if c['expect'][s] not in (o['sections'].get(s) or [])]
        if wrong:
            s, want, got = wrong[0]
            ctx.violation('provenance/%s/expected-%s' % (s, want), 'section %s of OUT should come from %s but holds %s: %s' % (s, want, got, desc), {'kind': 'build', 'cfg': c})
        elif o['label'] != c['label']:
            ctx.violation('label/%s/expected-%s' % (c['fmt'], c['label']), 'label of OUT should be %s but is %s: %s' % (c['label'], o['label'], desc), {'kind': 'build', 'cfg': c})
        else:
            good += 1
    ctx.traces += good
    ctx.nontrivial += good
    ctx.exhaustive = not ctx.quick
    ctx.canary(True, 'n/a')
    from .. import system
    system.run(ctx, 'C13')
    ctx.sample({'cfg': pick[len(pick) // 2]['args'], 'out0': pick[len(pick) // 2]['out0'], 'fmt': pick[len(pick) // 2]['fmt'], 'expect': pick[len(pick) // 2]['expect'], 'observed': res[len(pick) // 2]['sections']})


def replay(ctx, path):
    rec = json.load(open(path))['replay']
    o = _case((rec['cfg'], ctx.tmp))
    print(o)
