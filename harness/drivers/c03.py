"""C03 - .p8 text cart write/read round trip preserves the whole cart.

Carts are given as a memory pattern + overrides (sparse: all byte values at region starts / ends
and at the nibble positions of rows; dense: random), a label or none, a version, and a Lua
source (incl. all 256 P8SCII byte values in strings / comments / identifiers, generated
programs, fixtures). Each is written with P8Formatter.to_file, the file is observed (section
rows, __lua__ text), read back with P8Formatter.from_file and written again. TraceP8.tla
(focus C03) judges: every section row is the format's text for the memory (shared with C16),
the __lua__ section is the P8SCII->Unicode image of the code with a final newline, the re-read
memory differs only in the music bit the format cannot hold, code / label presence / label /
version are preserved, and the rewrite is byte-identical.
"""
import json
import os
import random
import tempfile

from .. import core, cartio, progs


def lua_sources(ctx, rnd):
    out = list(cartio.LUA_SAMPLES)
    # every byte value inside a string, a comment, an identifier (>= 0x80)
    for lo in range(0, 256, 32):
        vals = bytes(b for b in range(lo, lo + 32) if b not in (10, 13, 34, 92, 0))
        out.append(b's="' + vals + b'" -- ' + vals.replace(b'\n', b' ') + b'\n')
    out.append(b''.join(bytes([b]) + b'x=' + bytes([b]) + b'\n' for b in range(128, 256)))
    out.append(b'x="\\0\\1\\2" y="a\\tb" -- \x01\x02\x7f\n')
    # lines shaped like a section header but not one: glyph bytes, spaces, upper case, inside long strings / comments
    out.append(b's=[[\n__\xcb\xcc\xcd__\n__ lua __\n__\x80__\n]]\n--[[\n__\xe9\xea__\n]]\nx=1\n')
    out.append(b'__\xcb\xcc__=1\n_gfx_=2 -- __gfx\n')
    for name, src in progs.program_sources(ctx, rnd, 200 if ctx.quick else 2000):
        out.append(src)
    for fn in sorted(os.listdir(os.path.join(core.VERIF, 'fixtures', 'lua'))):
        if fn != 'lexer_valid.lua':
            out.append(open(os.path.join(core.VERIF, 'fixtures', 'lua', fn), 'rb').read())
    # the same sources as a Windows editor saves them (CR LF also inside multi-line strings and comments)
    out += [x.replace(b'\r\n', b'\n').replace(b'\n', b'\r\n') for x in out if b'\n' in x and len(x) < 6000]
    return out


def in_domain(code):
    import re
    return re.search(rb'(^|\n)__\w+__(\n|$)', code) is None


def _mk(item):
    k, pat, ov, lpat, lov, code, version = item
    from pico8.lua import lua
    try:
        lua.Lua.from_lines([code] if code else [], 8)
    except Exception:
        return ('ood', None, None)
    try:
        rec, info = cartio.p8_trace(pat, ov, lpat, lov, code, version, 'C03')
    except Exception as e:  # noqa
        return ('raises', '%s: %s' % (type(e).__name__, str(e)[:100]), None)
    return ('ok', rec, info.get('error'))


def run(ctx):
    rnd = random.Random(ctx.seed)
    ctx.rule = ('carts = memory pattern + overrides (sparse edge sets, dense random) x label / none x version x Lua sources (all 256 P8SCII values, generated programs, fixtures); '
                'non-trivial = written, observed, read back and rewritten, and accepted by TraceP8 to the end')
    ctx.assumptions = ['TraceP8.tla states the .p8 format; the P8SCII table is data of the working tree (its soundness is C15)',
                       'Lua sources with a line that reads as a __section__ header, and sources picotool cannot parse, are outside the domain',
                       'bit 7 of each music pattern\'s 4th channel byte has no place in the .p8 format']
    srcs = [s for s in lua_sources(ctx, rnd) if in_domain(s)]
    items = []
    n_dense = 2 if ctx.quick else 12
    for k, code in enumerate(srcs):
        pat = (rnd.randrange(256), rnd.randrange(256))
        if k < n_dense:
            ov = {a: rnd.randrange(256) for a in range(0x4300)}
        else:
            ov = cartio.sparse_overrides(rnd, 30 if ctx.quick else 120)
            if k % 3 == 0:
                ov.update(cartio.repeated_row_overrides(rnd, pat))
            elif k % 3 == 1:
                ov.update(cartio.default_row_overrides(rnd))
        lpat = (rnd.randrange(256), rnd.randrange(256)) if k % 3 else None
        lov = {rnd.randrange(0x2000): rnd.randrange(256) for _ in range(8)} if lpat else {}
        version = rnd.choice((0, 5, 8, 16, 29, 33, 41, 255, 4096))
        items.append((k, pat, ov, lpat, lov, code, version))
    res = core.parmap(_mk, items)
    traces, meta = [], []
    for it, (st, a, err) in zip(items, res):
        if st == 'ood':
            ctx.out_of_domain += 1
        elif st == 'raises':
            ctx.violation('write-raises/%s' % a.split(':')[0], 'writing the cart as .p8 raised %s (code starts %r)' % (a, it[5][:30]), {'kind': 'cart', 'item': [it[0]]})
        else:
            if err:
                a['rb']['version'] = -2
            traces.append(a)
            meta.append((it, err))
    ctx.evaluations += len(items)
    tf = os.path.join(ctx.tmp, 'table.json')
    from .c15 import table
    json.dump(table(), open(tf, 'w'))
    base = json.loads(json.dumps(traces[-1]))
    cans = []
    c = json.loads(json.dumps(base)); c['rb']['code'] = c['rb']['code'][:-1]; cans.append((c, 'readback-code'))
    c = json.loads(json.dumps(base)); c['rb']['diff'] = [[100, 7]]; cans.append((c, 'readback-memory'))
    c = json.loads(json.dumps(base)); c['rb']['version'] = base['version'] + 1; cans.append((c, 'readback-version'))
    c = json.loads(json.dumps(base)); c['rewriteSame'] = False; cans.append((c, 'rewrite-differs'))
    c = json.loads(json.dumps(base)); c['lua'] = c['lua'][:-1]; cans.append((c, 'lua-section'))
    v = ctx.validate('TraceP8', traces + [x for x, _ in cans], env={'TABLE_FILE': tf}, max_bytes=3000000)
    ctx.traces -= len(cans)
    if v[len(traces) - 1][0] == 'ok':
        for (x, want), vv in zip(cans, v[len(traces):]):
            ctx.canary(vv[0] == want, want)
    for (it, err), vv in zip(meta, v):
        if vv[0] == 'ok':
            ctx.nontrivial += 1
        else:
            sig = vv[0] if not err else 'read-raises/%s' % err.split(':')[0]
            ctx.violation(sig, '.p8 round trip of cart %d rejected (%s%s): version %d, label %s, code starts %r' % (
                it[0], vv[0], ('; reading back raised ' + err) if err else '', it[6], bool(it[3]), it[5][:30]),
                {'kind': 'cart', 'pat': list(it[1]), 'version': it[6], 'code': list(it[5]), 'label': bool(it[3])})
    ctx.sample({'cart': 1, 'version': items[1][6], 'label': bool(items[1][3]), 'code': items[1][5][:40].decode('latin1'), 'verdict': v[1][0] if len(v) > 1 else ''})
    cli(ctx)
    from .. import system
    system.run(ctx, 'C03')
    # library sessions: edit / save / edit / save ... on one Game (Session.tla); what a save writes is the current cart
    from .. import session
    session.run(ctx, 'p8', nseq=(128 if ctx.quick else 1500), depth=10)


def cli(ctx):
    """once through `p8tool writep8` and through file.to_file / from_file on real files"""
    from pico8 import tool
    from pico8.game import file as gfile
    d = tempfile.mkdtemp(prefix='c03_', dir=ctx.tmp)
    rnd = random.Random(ctx.seed + 1)
    mem = cartio.memory((7, 3), cartio.sparse_overrides(rnd, 50))
    code = open(os.path.join(core.VERIF, 'fixtures', 'lua', 'extra_game.lua'), 'rb').read()
    g = cartio.make_game(mem, code, cartio.label_bytes((9, 1), {}), 16)
    p = os.path.join(d, 'a.p8')
    try:
        gfile.to_file(g, p)
        once = open(p, 'rb').read()
        # over an existing file (another cart, with a label and another version): the result is the new cart's file alone
        other = cartio.make_game(cartio.memory((1, 200), {}), b'-- other\nz=9\n', cartio.label_bytes((4, 4), {}), 33)
        p2 = os.path.join(d, 'over.p8')
        gfile.to_file(other, p2)
        gfile.to_file(g, p2)
        gfile.to_file(g, p2)
        ctx.evaluations += 1
        if open(p2, 'rb').read() != once:
            ctx.violation('overwrite-differs', 'writing a cart over an existing .p8 file (twice) leaves %d bytes, writing it to a fresh path %d bytes: the old file shows through' % (
                len(open(p2, 'rb').read()), len(once)), {'kind': 'overwrite'})
        else:
            ctx.nontrivial += 1
        g2 = gfile.from_file(p)
        try:
            rc = tool.main(['--quiet', 'writep8', p])
        except SystemExit as e:
            rc = e.code
        g3 = gfile.from_file(os.path.join(d, 'a_fmt.p8'))
    except Exception as e:  # noqa
        ctx.violation('cli-raises/%s' % type(e).__name__, 'file.to_file / from_file / p8tool writep8 raised %s' % e, {'kind': 'cli'})
        return
    want = bytearray(mem)
    for a in range(0x3103, 0x3200, 4):
        want[a] &= 127
    for name, gg in (('file.from_file', g2), ('p8tool writep8', g3)):
        ok = (cartio.game_memory(gg) == bytes(want) and cartio.game_code(gg) == code and gg.label is not None and
              bytes(gg.label._data) == cartio.label_bytes((9, 1), {}) and gg.version == 16)
        if ok:
            ctx.nontrivial += 1
            ctx.traces += 1
        else:
            ctx.violation('cli-roundtrip/%s' % name.split()[0], 'cart changed through %s' % name, {'kind': 'cli'})


def replay(ctx, path):
    rec = json.load(open(path))['replay']
    run(ctx)
