"""C02 - luamin renaming is a consistent injection that respects reserved names.

(1) Renamer.tla: Layer I (map + counter + base-26 names, as in MinifyNameFactory) is model-checked
    against the Layer P clauses (Consistent, Injective, KeptAsIs, GeneratedOK); the variant
    without the keep-set skip must be rejected; TLC call sequences are replayed into the real
    factory (code ~ model: MODEL-DRIFT only).
(2) TraceRename.tla: long call histories recorded from real factories (thousands of distinct
    identifiers incl. every would-be generated name; keep files; keep-all) judged per call.
(3) TraceMinify.tla (focus C02): aligned identifier pairs of whole minified programs.
"""
import json
import random

from .. import core, progs, minify, lexref
from . import c01
from pico8.lua import lua

MC_CFG = '''SPECIFICATION Spec
CONSTANTS Names = {"foo", "bar", "a", "b", "ba", "t", "end"}
Preserved = {"b", "end", "d"}
Keep = {"a", "c"}
KeepAll = %s
MaxCalls = %d
FixKeep = %s
INVARIANT Consistent
INVARIANT Injective
INVARIANT KeptAsIs
INVARIANT GeneratedOK
%s
CHECK_DEADLOCK FALSE
'''


def model_checks(ctx):
    n = 4 if ctx.quick else 5
    ctx.model_check('Renamer', MC_CFG % ('FALSE', n, 'TRUE', ''), name='MC_Renamer')
    ctx.model_check('Renamer', MC_CFG % ('TRUE', 3, 'TRUE', ''), name='MC_Renamer_keepall')
    ctx.model_check('Renamer', MC_CFG % ('FALSE', 3, 'FALSE', ''), name='MC_Renamer_mutant_no_keep_skip',
                    expect_violation='GeneratedOK')
    # replay the model's call histories into the real factory with the model's small sets
    r = ctx.tlc('Renamer', MC_CFG % ('FALSE', 4, 'TRUE', 'CONSTRAINT Emit'), name='Gen_Renamer')
    hists = r.jsons
    saved = lua.MinifyNameFactory.PRESERVED_NAMES
    drift = 0
    try:
        lua.MinifyNameFactory.PRESERVED_NAMES = {b'b', b'end', b'd'}
        kf = minify.KeepFiles(ctx).make([b'a', b'c'])
        for h in hists:
            f = lua.MinifyNameFactory(keep_names_from_file=kf)
            got = [f.get_short_name(c[0].encode()).decode() for c in h]
            if got != [c[1] for c in h]:
                drift += 1
                ctx.drift('name factory differs from Renamer.tla on %s: model %s, code %s' % ([c[0] for c in h], [c[1] for c in h], got))
    finally:
        lua.MinifyNameFactory.PRESERVED_NAMES = saved
    ctx.notes['renamer_histories_replayed'] = len(hists)
    ctx.traces += len(hists) - drift


IDS_CFG = '''SPECIFICATION Spec
CONSTANTS Names = {"a"}
Preserved = {}
Keep = {}
KeepAll = FALSE
MaxCalls = 0
FixKeep = TRUE
MaxId = %d
INVARIANT IdsDistinct
CONSTRAINT EmitNames
CHECK_DEADLOCK FALSE
'''


def name_ids(ctx):
    """Every generated short name id < N: distinct in the model (TLC, exhaustive); the real
    _name_for_id must produce the model's names (MODEL-DRIFT otherwise)."""
    n = 20000
    r = ctx.model_check('MCNameIds', IDS_CFG % n, name='MC_NameIds', workers=2)
    names = r.jsons[0] if r.jsons else []
    if len(names) != n + 1:
        raise core.MachineryError('MCNameIds printed %d names' % len(names))
    bad = 0
    for i, w in enumerate(names):
        try:
            got = lua.MinifyNameFactory._name_for_id(i).decode('latin1')
        except Exception as e:  # noqa
            got = 'exception %s' % type(e).__name__
        if got != w:
            bad += 1
            if bad < 3:
                ctx.drift('_name_for_id(%d) = %r, Renamer.tla NameForId = %r' % (i, got, w))
    ctx.notes['name_ids_checked'] = n + 1
    ctx.notes['name_ids_equal_to_model'] = n + 1 - bad


def ident_population(rnd, n):
    alpha = b'abcdefghijklmnopqrstuvwxyz_ABCDEFGHIJKLMNOPQRSTUVWXYZ'
    alnum = alpha + b'0123456789' + bytes(range(128, 256))
    names = []
    seen = set()
    # every would-be generated name first
    for i in range(min(n // 3, 800)):
        names.append(lua.MinifyNameFactory._name_for_id(i) if hasattr(lua.MinifyNameFactory, '_name_for_id') else b'x%d' % i)
    while len(names) < n:
        ln = rnd.randrange(1, 7)
        w = bytes([rnd.choice(alpha + bytes(range(128, 256)))]) + bytes(rnd.choice(alnum) for _ in range(ln - 1))
        names.append(w)
    # identifiers that differ only in letter case, or only in a glyph byte
    for w in list(names[:60]):
        names.append(w.upper())
        names.append(w.capitalize())
        names.append(bytes([0x80 + (w[0] % 0x70)]) + w)
    out = []
    for w in names:
        if w not in seen:
            seen.add(w)
            out.append(w)
    rnd.shuffle(out)
    return out


def unit_traces(ctx, rnd):
    n = 1500 if ctx.quick else 6000
    kfs = minify.KeepFiles(ctx)
    traces = []
    configs = [('none', (), False), ('ab', (b'a', b'b', b'ba', b'zz'), False), ('builtins', (b'print', b'spr', b'e'), False),
               ('keywords', (b'end', b'do', b'c'), False), ('keepall', (), True)]
    # keep files in the formats editors produce, listing identifiers over the whole identifier alphabet: one small
    # history per file (every high byte as the first character of the first listed name, names that are would-be
    # generated names, builtins, keyword-like names)
    for hb in range(128, 256):
        first = bytes([hb]) + rnd.choice((b'', b'x', b'shot', bytes([rnd.randrange(128, 256)])))
        others = tuple(rnd.choice((b'a', b'b', b'ba', b'e', b'foo', b'Z', b'_', b'q9', bytes([rnd.randrange(128, 256), 97]))) for _ in range(rnd.randrange(0, 4)))
        raw = first + (b'\r\n' if hb % 5 == 0 else b'\n') + minify.keep_file_bytes(others, rnd)[0:] if hb % 2 else None
        configs.append(('file-format/first-%s' % ('glyph' if hb % 2 else 'any'), (first,) + others, False) + ((raw,) if raw else ()))
    for label, keep, keep_all, *rawopt in configs:
        small = label.startswith('file-format')
        pop = ident_population(rnd, 40 if small else n)
        if small:
            pop = list(keep) + pop
            rnd.shuffle(pop)
        kf = None
        raw = b''
        if keep:
            kf = kfs.make(keep, rnd if small else None, raw=(rawopt[0] if rawopt else None))
            raw = kfs.raw
        f = lua.MinifyNameFactory(keep_all_names=keep_all, keep_names_from_file=kf)
        calls = []
        order = pop + [pop[rnd.randrange(len(pop))] for _ in range(len(pop) // 3)] + [b'print', b'end', b'_init', b'btn', b't']
        for w in order:
            try:
                o = f.get_short_name(w)
            except Exception as e:  # noqa
                ctx.violation('factory-raises/%s' % type(e).__name__, 'get_short_name(%r) raised %s' % (w, e), {'kind': 'unit', 'name': list(w)})
                break
            calls.append({'in': list(w), 'out': list(o)})
        traces.append({'calls': calls, 'keepFile': list(raw), 'keepAll': keep_all, 'builtins': minify.BUILTINS})
    # canaries (hand-written histories: never derived from the code under test)
    def H(pairs, keep=()):
        return {'calls': [{'in': list(a), 'out': list(b)} for a, b in pairs], 'keepFile': list(b'\n'.join(keep)), 'keepAll': False,
                'builtins': minify.BUILTINS}
    c1 = H([(b'foo', b'a'), (b'bar', b'b'), (b'baz', b'a')])
    c2 = H([(b'foo__', b'a')], keep=(b'a',))
    c3 = H([(b'\xefx', b'a')], keep=(b'# c', b' \xefx\t\r'))
    v = ctx.validate('TraceRename', traces + [c3, c1, c2], workers=8)
    ctx.traces -= 3
    ctx.canary(v[-3][0] == 'rename-kept', 'listed name (blanks around it, CR line end) renamed')
    ctx.canary(v[-2][0] in ('rename-injective', 'rename-consistent'), 'output name duplicated')
    ctx.canary(v[-1][0] in ('rename-generated', 'rename-injective'), 'generated name collides with a kept name')
    for (label, keep, keep_all, *_), t, vv in zip(configs, traces, v):
        ctx.evaluations += len(t['calls'])
        if vv[0] == 'ok':
            ctx.nontrivial += 1
        else:
            k = vv[1]
            c = t['calls'][k - 1]
            ctx.violation('unit-%s/%s' % (vv[0], label), 'name factory history rejected (%s) at call %d: %r -> %r (keep file: %s)' % (
                vv[0], k, bytes(c['in']), bytes(c['out']), [bytes(x) for x in keep]), {'kind': 'unit', 'config': label})
    ctx.sample({'unit_history': 'config %s' % configs[1][0], 'calls': len(traces[1]['calls']),
                'first': [[bytes(c['in']).decode('latin1'), bytes(c['out']).decode('latin1')] for c in traces[1]['calls'][:6]]})


PROBES = [b':: top ::\nx+=1\nif (x<9) goto top\n', b'::top::\nx=1 goto top\n', b'::\ttop\t:: top=1 goto top\n', b'goto done\ndone=1\n:: done ::\n',
          b'function a.b.c:d(e) return self.e, a.c, b end\n', b't={top=1,[top]=2,t=top} t.top=t.t\n', b'for i,v in pairs(t) do v.i=i end\n',
          b'local function f(f, ...) return f(...) end\n', b'x=s:sub(1,2):len() s.sub=sub len=x\n', b'a.b["c"].d:e\"f\".g=a.d.e.g.c.b\n'.replace(b'\\"', b'"'),
          b'::a:: ::b:: goto a goto b a=b\n', b'local a <const> = 1 b=a\n', b'a,b,c=c,b,a a.a.a=b.b.b\n']


def occurrence_histories(ctx, cases, keepfiles):
    """Every role an identifier can occur in (variable, field, method, parameter, label, goto target, table key): the
    identifier occurrences of input and output, in order, as the tree under test tokenises them, judged as one renaming
    history by TraceRename. Also for sources outside the reference dialect that the tree under test happens to accept."""
    traces, meta = [], []
    for name, src, _ in cases:
        a = minify.ident_occurrences(src)
        if not a:
            ctx.out_of_domain += 1
            continue
        out, err = minify.run_minifier(src)
        if out is None:
            ctx.out_of_domain += 1          # not loadable / writer raises: C07 / C08 / C01's business
            continue
        b = minify.ident_occurrences(out)
        if b is None or len(a) != len(b):
            ctx.out_of_domain += 1          # token streams differ in shape: C01's business
            continue
        traces.append({'calls': [{'in': list(x), 'out': list(y)} for x, y in zip(a, b)], 'keepFile': [], 'keepAll': False, 'builtins': minify.BUILTINS})
        meta.append((name, src, out))
    if not traces:
        return
    v = ctx.validate('TraceRename', traces, workers=8)
    for (name, src, out), t, vv in zip(meta, traces, v):
        ctx.evaluations += 1
        if vv[0] == 'ok':
            ctx.nontrivial += 1
        else:
            c = t['calls'][vv[1] - 1]
            ctx.violation('occurrences-%s/%s' % (vv[0], lexref.shape(bytes(c['in']))), 'identifier occurrences of %s rejected (%s) at occurrence %d: %r -> %r; %r -> %r' % (
                name, vv[0], vv[1], bytes(c['in']), bytes(c['out']), src[:60], out[:60]), {'kind': 'minify', 'src': list(src), 'cfg': 'default'})


def cli_path(ctx, rnd):
    """the options as the user gives them: `p8tool luamin` and `p8tool build --lua-minify`, each with --keep-all-names and
    with --keep-names-from-file (the help text of both commands promises that the listed names are preserved)"""
    import os
    import tempfile
    from pico8 import tool
    src = open(os.path.join(core.VERIF, 'fixtures', 'lua', 'every_node.lua'), 'rb').read()
    d = tempfile.mkdtemp(prefix='c02_', dir=ctx.tmp)
    p = os.path.join(d, 'in.p8')
    with open(p, 'wb') as f:
        f.write(b'pico-8 cartridge // http://www.pico-8.com\nversion 8\n__lua__\n' + src + b'__gfx__\n')
    names = minify.names_in(src)
    keep = [n for n in names if n not in (b'print',)][1::3][:12]
    raw = minify.keep_file_bytes(keep, rnd)
    kf = os.path.join(d, 'keep.txt')
    open(kf, 'wb').write(raw)
    from pico8.game import file as gfile
    from .. import cartio
    ppng = os.path.join(d, 'inpng.p8.png')
    gfile.to_file(gfile.from_file(p), ppng)
    runs = []
    for opt, kw in ((['--keep-names-from-file', kf], {'keep_file': raw}), (['--keep-all-names'], {'keep_all': True})):
        runs.append((['--quiet', 'luamin'] + opt + [p], os.path.join(d, 'in_fmt.p8'), kw, 'luamin ' + opt[0]))
        runs.append((['--quiet', 'luamin'] + opt + [ppng], os.path.join(d, 'inpng_fmt.p8.png'), kw, 'luamin ' + opt[0] + ' (.p8.png)'))
        runs.append((['--quiet', 'build', os.path.join(d, 'b.p8'), '--lua', p, '--lua-minify'] + opt, os.path.join(d, 'b.p8'), kw, 'build --lua-minify ' + opt[0]))
        runs.append((['--quiet', 'build', os.path.join(d, 'b.p8.png'), '--lua', p, '--lua-minify'] + opt, os.path.join(d, 'b.p8.png'), kw, 'build --lua-minify ' + opt[0] + ' (.p8.png)'))
    traces, meta = [], []
    for argv, outp, kw, what in runs:
        if os.path.exists(outp):
            os.unlink(outp)
        try:
            rc = tool.main(argv)
        except SystemExit as e:
            rc = e.code
        except Exception as e:  # noqa
            rc = 'exception %s' % type(e).__name__
        if rc not in (0, None) or not os.path.exists(outp):
            ctx.violation('cli-fails/' + what.replace(' ', '_'), 'p8tool %s failed on the every-node fixture (rc=%s)' % (what, rc), {'kind': 'cli', 'what': what})
            continue
        out = cartio.game_code(gfile.from_file(outp))
        traces.append(minify.make_trace(src, out, 'C02', [], keep_all=kw.get('keep_all', False), keep_file=kw.get('keep_file', b'')))
        meta.append(what)
    if traces:
        v = ctx.validate('TraceMinify', traces)
        for what, vv in zip(meta, v):
            ctx.evaluations += 1
            if vv[0] == 'ok':
                ctx.nontrivial += 1
            elif vv[0] not in ('ood', 'misaligned'):
                ctx.violation('cli/%s/%s' % (what.replace(' ', '_'), vv[0]), 'output of p8tool %s rejected (%s): the option is not honoured' % (what, vv[0]), {'kind': 'cli', 'what': what})


def run(ctx):
    rnd = random.Random(ctx.seed)
    ctx.rule = ('(1) Renamer.tla exhaustively for call sequences over 7 names; (2) call histories of real name factories over thousands of distinct identifiers x keep '
                'configurations judged per call; (3) aligned identifier pairs of minified GenProg programs x {default, keep-all, keep file}; non-trivial = history/program accepted to its end')
    ctx.assumptions = ['reserved names = Lua keywords + a core list of documented PICO-8 API names written out in P8Names.tla; PICO8_BUILTINS of the working tree only widens it',
                       'identifier alignment of whole programs relies on the token alignment of TraceMinify (misaligned outputs are C01 findings and skipped here)']
    model_checks(ctx)
    name_ids(ctx)
    unit_traces(ctx, rnd)
    keepfiles = minify.KeepFiles(ctx)
    sets = c01.gen_sets(ctx)
    cases = minify.program_cases(ctx, rnd, sets, ('spaced', 'lines'))
    c01.judge(ctx, cases[::3], ('default', 'keepfile', 'keepall'), keepfiles, focus='C02')
    c01.judge(ctx, c01.fixture_cases(ctx, rnd), ('default', 'keepfile', 'keepall'), keepfiles, focus='C02')
    cli_path(ctx, rnd)
    occurrence_histories(ctx, [('probe%d' % k, s, []) for k, s in enumerate(PROBES)] + cases[1::3] + c01.fixture_cases(ctx, rnd), keepfiles)
    ctx.evaluations += len(cases[::3]) * 3


def replay(ctx, path):
    rec = json.load(open(path))['replay']
    if rec.get('kind') == 'minify':
        keepfiles = minify.KeepFiles(ctx)
        c01.judge(ctx, [('replay', bytes(rec['src']), [])], (rec.get('cfg', 'default'),), keepfiles, focus='C02')
    else:
        unit_traces(ctx, random.Random(ctx.seed))
