"""C18 - raw cart-memory writes land at the addressed bytes and only there.

(1) WriteCart.tla: Layer I (the per-region slice arithmetic of write_cart_data with Python slice
    semantics) is model-checked against Layer P (PWrite) for every (addr, len) at a scaled-down
    memory map; the arithmetic of the pinned tree (Fixed = FALSE) must be rejected.
(2) GenWrite.tla: TLC enumerates every write whose start and end lie within +-2 of the six region
    boundaries (incl. ends past 0x4300) and all pairs of such writes (thorough: sampled pairs);
    each history is executed on a real Game with distinct data, observed through full snapshots,
    and judged by TraceWrite.tla.
"""
import json
import random

from .. import core

MC_CFG = '''SPECIFICATION Spec
CONSTANTS Bounds <- MCBounds
Fixed = %s
INVARIANT Refines
INVARIANT SizesConstant
CONSTRAINT OneStep
CHECK_DEADLOCK FALSE
'''
GEN_CFG = '''SPECIFICATION Spec
CONSTANT MaxOps = %d
CONSTRAINT Emit
CHECK_DEADLOCK FALSE
'''
TOP = 0x4300
NAMES = ('gfx', 'map', 'gff', 'music', 'sfx')


def base(a):
    return (a * 37 + 11) % 256


def D(j, addr, k):
    return (base(addr + k) + j * 16 + 1 + (k % 7)) % 256


def new_game():
    from pico8.game import game
    g = game.Game.make_empty_game()
    off = 0
    for n, size in zip(NAMES, (0x2000, 0x1000, 0x100, 0x100, 0x1100)):
        sec = getattr(g, n)
        sec._data[:] = bytes(base(off + i) for i in range(size))
        off += size
    return g


def snapshot(g):
    return [bytes(getattr(g, n)._data) for n in NAMES]


def run_history(ops, rnd):
    """Execute a history on a fresh game; returns the trace record."""
    g = new_game()
    rec = []
    if rnd.randrange(3) == 0:
        # library use before the writes: two sections constructed from one caller-owned buffer (their prior contents are equal:
        # the pattern has period 256); a section owns its bytes, so the writes below must still land in one region only
        shared = bytearray(g.gff._data)
        if bytes(g.music._data) == bytes(shared):
            g.gff = type(g.gff).from_bytes(shared, version=8)
            g.music = type(g.music).from_bytes(shared, version=8)
    for j, op in enumerate(ops, 1):
        addr, ln = op['addr'], op['len']
        data = bytes(D(j, addr, k) for k in range(ln))
        if j > 1 and rnd.randrange(2):
            # library use between writes: a section object is replaced by a fresh one holding the same bytes
            n = NAMES[rnd.randrange(len(NAMES))]
            old = getattr(g, n)
            src = bytes(old._data) if rnd.randrange(2) else bytearray(old._data)
            if n == 'map':
                new = type(old).from_bytes(src, version=8, gfx=g.gfx)
            else:
                new = type(old).from_bytes(src, version=8)
            setattr(g, n, new)
            if n == 'gfx':
                g.map._gfx = new
        before = snapshot(g)
        lab_before = bytes(g.label._data) if getattr(g, 'label', None) is not None else None
        raised = False
        try:
            if addr == 0 and j % 2:
                g.write_cart_data(data)         # (the address defaults to 0)
            else:
                g.write_cart_data(data, addr)
        except ValueError:
            raised = True
        except Exception as e:  # noqa
            raised = True
        after = snapshot(g)
        sizes = [len(x) for x in after]
        flat_b = b''.join(before)
        flat_a = b''.join(x[:len(y)].ljust(len(y), b'\0') for x, y in zip(after, before))
        runs = []
        vals = []
        s = None
        for a in range(len(flat_b)):
            if flat_a[a] != flat_b[a]:
                if s is None:
                    s = a
            elif s is not None:
                runs.append([s, a])
                s = None
        if s is not None:
            runs.append([s, len(flat_b)])
        changed = [a for r in runs for a in range(r[0], r[1])]
        if len(changed) <= 600:
            vals = [[a, flat_a[a]] for a in changed]
        else:
            pick = changed[:8] + changed[-8:] + [changed[rnd.randrange(len(changed))] for _ in range(48)]
            vals = [[a, flat_a[a]] for a in pick]
        # the label image is cart data that no address reaches: a change there is a change outside the addressed bytes
        lab_after = bytes(g.label._data) if getattr(g, 'label', None) is not None else None
        if lab_after != lab_before:
            runs.append([TOP, TOP + 1])
        # "according to the PICO-8 memory map": 0x1000-0x1fff is also the map's rows 32-63 (seen through the map object)
        try:
            for (x, y) in ((0, 32), (127, 63), (addr % 128, 32 + (addr // 128) % 32)):
                if len(after[0]) == 0x2000 and g.map.get_cell(x, y) != after[0][0x1000 + (y - 32) * 128 + x]:
                    runs.append([TOP + 2, TOP + 3])
                    break
        except Exception:
            runs.append([TOP + 2, TOP + 3])
        rec.append({'addr': addr, 'len': ln, 'raised': raised, 'sizes': sizes, 'runs': runs, 'vals': vals})
    return {'ops': rec}


def region_rel(addr, ln):
    """class of an address range for signatures: relation of start / end to region boundaries"""
    bounds = (0, 0x2000, 0x3000, 0x3100, 0x3200, 0x4300)

    def rel(x):
        for b in bounds:
            if x == b:
                return 'on'
        return 'in'
    nreg = sum(1 for b in bounds[1:-1] if addr < b < addr + ln)
    return 'start-%s/end-%s/span%d' % (rel(addr), rel(addr + ln), nreg)


def judge(ctx, histories, rnd):
    traces = [run_history(h, rnd) for h in histories]
    v = ctx.validate('TraceWrite', traces)
    for h, t, vv in zip(histories, traces, v):
        if vv[0] == 'ok':
            ctx.nontrivial += 1
        elif vv[0].startswith('ood'):
            ctx.out_of_domain += 1
        else:
            k = vv[1]
            op = t['ops'][k - 1]
            ctx.violation('%s/%s' % (vv[0], region_rel(op['addr'], op['len'])),
                          'write_cart_data(%d bytes at 0x%04x) as op %d of %s: %s; region sizes %s, changed runs %s' % (
                              op['len'], op['addr'], k, [(o['addr'], o['len']) for o in h], vv[0], op['sizes'], op['runs'][:4]),
                          {'kind': 'write', 'ops': h})
    return traces, v


def run(ctx):
    rnd = random.Random(ctx.seed)
    ctx.rule = ('every (start, end) with both ends within +-2 bytes of the six region boundaries (435 single writes incl. the rejected ones past 0x4300), '
                'pairs of such writes, and random (addr, len) histories; data differs from prior contents at every byte; non-trivial = history accepted to its end')
    ctx.assumptions = ['PICO-8 memory map 0x0000 gfx, 0x2000 map, 0x3000 gff, 0x3100 music, 0x3200 sfx, 0x4300 end',
                       'observation = full before/after snapshots of the five regions']
    ctx.model_check('WriteCart', MC_CFG % 'TRUE', name='MC_WriteCart_repaired')
    ctx.model_check('WriteCart', MC_CFG % 'FALSE', name='MC_WriteCart_pinned_arithmetic', expect_violation='Refines')
    r = ctx.tlc('GenWrite', GEN_CFG % 1, name='GenWrite_1')
    singles = [h for h in r.jsons]
    ctx.evaluations += len(singles)
    traces, v = judge(ctx, singles, rnd)
    # pairs: TLC enumerates all 435^2 in thorough; quick samples from the same set
    if ctx.quick:
        pairs = [singles[rnd.randrange(len(singles))] + singles[rnd.randrange(len(singles))] for _ in range(300)]
    else:
        r2 = ctx.tlc('GenWrite', GEN_CFG % 2, name='GenWrite_2')
        allp = r2.jsons
        ctx.notes['pair_histories_enumerated'] = len(allp)
        pairs = [allp[i] for i in sorted(rnd.sample(range(len(allp)), min(len(allp), 6000)))]
    randoms = []
    for _ in range(100 if ctx.quick else 1500):
        h = []
        for _ in range(rnd.randrange(1, 5)):
            a = rnd.randrange(0, TOP + 3)
            ln = rnd.randrange(0, min(TOP + 4 - a, rnd.choice((4, 64, 600, 5000, TOP))) + 1)
            h.append({'addr': a, 'len': ln})
        randoms.append(h)
    judge(ctx, pairs + randoms, rnd)
    ctx.evaluations += len(pairs) + len(randoms)
    ctx.exhaustive = True
    # raw writes inside library sessions (between saves, loads, accessor edits and section replacements): Session.tla
    from .. import session
    session.run(ctx, 'edit', nseq=(32 if ctx.quick else 400))
    # canaries (hand-written observations)
    ok = {'ops': [{'addr': 8190, 'len': 4, 'raised': False, 'sizes': [8192, 4096, 256, 256, 4352], 'runs': [[8190, 8194]],
                   'vals': [[8190 + k, D(1, 8190, k)] for k in range(4)]}]}
    c1 = json.loads(json.dumps(ok)); c1['ops'][0]['sizes'][0] = 8190
    c2 = json.loads(json.dumps(ok)); c2['ops'][0]['runs'] = [[8190, 8192]]
    c3 = json.loads(json.dumps(ok)); c3['ops'][0]['vals'][2][1] ^= 1
    c4 = {'ops': [{'addr': 17150, 'len': 4, 'raised': False, 'sizes': [8192, 4096, 256, 256, 4352], 'runs': [[17150, 17152]], 'vals': []}]}
    vv = ctx.validate('TraceWrite', [ok, c1, c2, c3, c4])
    ctx.traces -= 5
    if vv[0][0] != 'ok':
        raise core.MachineryError('C18 canary base rejected %s' % (vv[0],))
    for x, want in zip(vv[1:], ('region-size', 'extent', 'value', 'not-rejected')):
        ctx.canary(x[0] == want, want)
    ctx.sample({'history': singles[len(singles) // 2], 'observed': traces[len(singles) // 2]['ops'][0]['runs'], 'verdict': v[len(singles) // 2][0]})


def replay(ctx, path):
    rec = json.load(open(path))['replay']
    judge(ctx, [rec['ops']], random.Random(0))
