"""C15 - P8SCII <-> Unicode conversion is a bijection on all byte strings.

The 256-entry table of the working tree is extracted to JSON; TLC checks on it (P8scii.tla):
injective, prefix-free, every code point a Unicode scalar value, and Decode(Encode(<<x, y>>)) =
<<x, y>> for all 65536 byte pairs with the greedy decoder (with prefix-freeness this implies all
strings). The real functions are then run on all 256 single bytes, all 65536 pairs and random
long strings; TLC (TraceP8scii.tla) judges each recorded conversion against the table's code.
"""
import json
import os
import random

from .. import core

MC = '''SPECIFICATION Spec
INVARIANT TableOK
INVARIANT PairRoundTrip
CHECK_DEADLOCK FALSE
'''


def table():
    from pico8.lua import lua
    return [[ord(ch) for ch in c.p8string] for c in lua.P8SCII_CHARSET]


def convert(bs):
    from pico8.lua import lua
    rec = {'inp': list(bs), 'uni': [], 'utf8ok': False, 'back': [-1]}
    try:
        u = lua.p8scii_to_unicode(bs)
        rec['uni'] = [ord(ch) for ch in u]
    except Exception:
        rec['uni'] = [-1]
        return rec
    try:
        u.encode('utf-8')
        rec['utf8ok'] = True
    except Exception:
        pass
    try:
        rec['back'] = list(lua.unicode_to_p8scii(u))
    except Exception:
        rec['back'] = [-1]
    return rec


def _history(item):
    """One process, one long history: between the conversions of canonical text, unicode_to_p8scii is handed text that
    is NOT the image of any byte string (what an editor or a forum paste leaves in a cart: a glyph without its variation
    selector, a selector alone, decomposed or foreign characters, a BOM). Whatever it does with those (an error is
    fine), the conversions of all byte strings afterwards must be what they always are: the functions are pure."""
    tab, seed = item
    from pico8.lua import lua
    rnd = random.Random(seed)
    multi = [b for b in range(256) if len(tab[b]) > 1]
    foreign = []
    for b in multi:
        cps = tab[b]
        foreign += [chr(cps[0]), chr(cps[0]) + 'x', 'a' + chr(cps[0]), chr(cps[-1]), chr(cps[0]) * 2, chr(cps[0]) + chr(cps[0]) + chr(cps[-1])]
    foreign += ['\ufeffx=1', '\u0100', 'e\u0301', '\ufe0f', '\u200d', '\U0001f600', 'x\u2028y', '\x80', '\xff', '\u2588\ufe0f', '\ufe0e']
    for b in rnd.sample(range(128, 256), 12):
        foreign.append(''.join(chr(c) for c in tab[b]) + '\ufe0f')
        foreign.append(''.join(chr(c) for c in tab[b])[:-1] if len(tab[b]) > 1 else chr(tab[b][0] + 1))
    recs = []
    probes = [bytes([a]) for a in range(256)] + [bytes(multi) * 3, bytes(multi[::-1]) + b'A' + bytes(multi)]
    for f in foreign:
        try:
            lua.unicode_to_p8scii(f)
            out = 'returned'
        except Exception as e:  # noqa
            out = type(e).__name__
        for pb in probes:
            r = convert(pb)
            r['after'] = [ord(ch) for ch in f][:8]
            recs.append(r)
    return recs


def _file_context(item):
    """the conversion where it is used: the code is written into a .p8 file (its __lua__ section is the Unicode text) and
    read back from it - through the stream API and, by file name, through pico8.game.file as the tool does"""
    code, tmp = item
    import tempfile
    import shutil
    from .. import cartio
    from pico8.game import file as gfile
    rec = {'inp': list(code), 'uni': [-1], 'utf8ok': False, 'back': [-1]}
    d = tempfile.mkdtemp(prefix='c15_', dir=tmp)
    try:
        g = cartio.make_game(cartio.memory((0, 0), {}), code, None, 16)
        data = cartio.write_p8(g)
        rec['uni'] = cartio.lua_section_points(data)
        rec['utf8ok'] = rec['uni'] != [-1]
        back = cartio.game_code(cartio.read_p8(data))
        fp = os.path.join(d, 'c.p8')
        gfile.to_file(g, fp)
        back2 = cartio.game_code(gfile.from_file(fp))
        rec['back'] = list(back if back2 == back else back2)
    except Exception:
        pass
    shutil.rmtree(d, ignore_errors=True)
    return rec


def file_sources():
    out = []
    for b in range(1, 256):
        if b in (10, 13):
            continue
        out.append(b'-- ' + bytes([b]) + b' ' + bytes([b, b]) + b'\n' + (b'x="' + bytes([b]) + b'a"\n' if b not in (34, 92) else b''))
    # CR in every position relative to a line end; CR LF inside a long string and a comment; tabs; a line of glyphs only
    out += [b'x=1\r\ny=2\r\n', b'-- a\r\n-- b\r\n', b's=[[a\r\nb\r\n]]\r\nz=1\n', b'x=1 \r\n', b'--[[c\r\nd]]\n', b'\t\tx=1\t\n',
            bytes(range(128, 256)) + b'=1\n', b'--' + bytes(range(16, 32)) + b'\x7f\n', b'x=1 -- \r\r\n']
    out.append(b''.join(bytes([b]) + b'x=' + bytes([b]) + b'\n' for b in range(128, 256)))      # every glyph starting an identifier
    # one very long line of multi-byte glyphs (a data string): far more than 64 KiB of UTF-8 text, well within the code limit
    out.append(b's="' + bytes(0x9a + (i % 90) for i in range(30000)) + b'"\nx=1\n')
    out.append(b'--' + bytes([0x8e, 0x83, 0x94]) * 9000 + b'\n')
    return out


def run(ctx):
    rnd = random.Random(ctx.seed)
    ctx.rule = ('TLC on the extracted table: all 65280 ordered pairs of entries (injective, prefix-free), all 65536 byte pairs through Encode/Decode; '
                'real functions on all 256 bytes, all 65536 pairs and random long strings; non-trivial = conversion judged ok by TLC')
    ctx.assumptions = ['the table is data read from P8SCII_CHARSET of the working tree; the spec states what must hold of it',
                       'prefix-freeness + pair round trip implies unique decoding of all strings']
    try:
        tab = table()
    except Exception as e:  # noqa
        ctx.violation('table-unreadable', 'P8SCII_CHARSET could not be read: %s' % e, {})
        return
    tf = os.path.join(ctx.tmp, 'table.json')
    json.dump(tab, open(tf, 'w'))
    r = ctx.tlc('P8scii', MC, env={'TABLE_FILE': tf}, expect_fail=True, name='MC_P8scii')
    ctx.mc_results.append({'name': 'MC_P8scii', 'states': r.distinct, 'result': 'holds' if r.rc == 0 else 'violated'})
    if r.rc != 0:
        which = 'TableOK' if ('Invariant TableOK is violated' in r.stdout or 'invariant of TableOK is equal to FALSE' in r.stdout) else ('PairRoundTrip' if 'PairRoundTrip is violated' in r.stdout else None)
        if which is None:
            raise core.MachineryError('TLC failed on P8scii: %s' % r.stdout[-500:])
        dup = [(a, b) for a in range(len(tab)) for b in range(len(tab)) if a < b and (tab[a] == tab[b] or tab[b][:len(tab[a])] == tab[a] or tab[a][:len(tab[b])] == tab[b])]
        ctx.violation('table/%s' % which, 'the P8SCII table violates %s (TLC); colliding entries e.g. %s' % (which, dup[:3]), {'kind': 'table', 'table': tab})
    # spec non-vacuity: a table with a duplicated glyph must be rejected
    bad = [list(x) for x in tab]
    bad[254] = list(bad[255])
    bf = os.path.join(ctx.tmp, 'table_bad.json')
    json.dump(bad, open(bf, 'w'))
    ctx.model_check('P8scii', MC, env={'TABLE_FILE': bf}, name='MC_P8scii_duplicate_glyph', expect_violation='TableOK')
    # conformance of the real functions
    inputs = [bytes([a]) for a in range(256)] + [bytes([a, b]) for a in range(256) for b in range(256)]
    for _ in range(100 if ctx.quick else 2000):
        inputs.append(bytes(rnd.randrange(256) for _ in range(rnd.randrange(3, 400))))
    # strings dense in the entries whose spelling has more than one code point, and long runs of one byte
    multi = [b for b in range(256) if len(tab[b]) > 1] or [0x8e]
    for _ in range(60 if ctx.quick else 600):
        n = rnd.randrange(20, 300)
        inputs.append(bytes(rnd.choice(multi) if rnd.randrange(3) else rnd.randrange(256) for _ in range(n)))
    for b in multi + [10, 13, 0, 255]:
        inputs.append(bytes([b]) * 70)
        inputs.append(bytes([b, 65]) * 40 + b'\r\n')
    recs = core.parmap(convert, inputs)
    frecs = core.parmap(_file_context, [(c, ctx.tmp) for c in file_sources()])
    ctx.notes['conversions_through_p8_files'] = len(frecs)
    inputs = inputs + [bytes(r['inp']) for r in frecs]
    recs = recs + frecs
    hist = core.parmap(_history, [(tab, ctx.seed)], procs=1)[0]
    ctx.notes['history_conversions_after_foreign_text'] = len(hist)
    inputs = inputs + [bytes(r['inp']) for r in hist]
    after = [None] * len(recs) + [r.pop('after') for r in hist]
    recs = recs + hist
    can1 = {'inp': [65, 128], 'uni': [65, 9608], 'utf8ok': True, 'back': [65, 129]}
    good = convert(b'A\x80')
    can2 = dict(good, uni=good['uni'][:-1] + [good['uni'][-1] + 1])
    v = ctx.validate('TraceP8scii', recs + [can1, can2], env={'TABLE_FILE': tf}, max_bytes=3000000)
    ctx.traces -= 2
    ctx.canary(v[-2][0] != 'ok', 'bytes changed on the way back')
    ctx.canary(v[-1][0] == 'encode', 'wrong code point')
    ctx.evaluations += len(inputs)
    for b, vv, af in zip(inputs, v, after):
        if vv[0] == 'ok':
            ctx.nontrivial += 1
        else:
            ctx.violation('%s/%s%s' % (vv[0], 'single' if len(b) == 1 else 'pair' if len(b) == 2 else 'string', '/after-foreign-text' if af else ''),
                          'conversion of %r rejected (%s)%s' % (b[:12], vv[0], (' after unicode_to_p8scii was given the non-canonical text with code points %s' % af) if af else ''),
                          {'kind': 'conv', 'bytes': list(b)})
    ctx.exhaustive = True
    ctx.sample({'bytes': [200, 65], 'unicode': convert(bytes([200, 65]))['uni']})


def replay(ctx, path):
    rec = json.load(open(path))['replay']
    if rec.get('kind') == 'conv':
        tf = os.path.join(ctx.tmp, 'table.json')
        json.dump(table(), open(tf, 'w'))
        v = ctx.validate('TraceP8scii', [convert(bytes(rec['bytes']))], env={'TABLE_FILE': tf})
        if v[0][0] != 'ok':
            ctx.violation('replay/' + v[0][0], 'still rejected', rec)
    else:
        run(ctx)
