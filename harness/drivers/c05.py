"""C05 - code compression is lossless and emits only well-formed :c: streams.

Decoder side (pipeline A): Compress.tla generates well-formed streams item by item from a literal
seed (every literal class, edge-focused (offset, len) incl. overlapping copies and the maximal
length 17; random long streams reaching the window edge 3119..3135) together with the text they
denote; picotool's decompress_code must return exactly that text.
Encoder side (pipeline B): compress_code / get_bytes_from_code on TLC-enumerated strings over
{table char, repeated char, newline, non-table byte}, structured texts (repeats at distances
around the window edge, block lengths around 17, `_update60`, ends at every position relative to
a block); the produced area is judged by the TraceComp decoder machine: every item well formed,
decoded text (truncated to the declared length) equals the input, picotool's own decoder agrees.
"""
import json
import random

from .. import core
from .c07 import GEN_CFG

GEN = '''SPECIFICATION Spec
CONSTANTS MaxItems = %d
MaxOut = %d
Mode = "%s"
NSeq = %d
CONSTRAINT Emit
CHECK_DEADLOCK FALSE
'''
TEXT_CFG = '''SPECIFICATION Spec
CONSTANTS Pieces <- PiecesComp
MaxPieces = %d
CONSTRAINT Emit
CHECK_DEADLOCK FALSE
'''
HDR = b':c:\x00'
F1 = b'if(_update60)_update=function()_update60()_update60()end'
F2 = b'if(_update60)_update=function()_update60()_update_buttons()_update60()end'


def _dec(rec):
    from pico8.game import compress
    stream, out = bytes(rec['stream']), bytes(rec['out'])
    area = HDR + bytes([len(out) >> 8, len(out) & 255]) + b'\x00\x00' + stream
    try:
        n, code, csize = compress.decompress_code(bytearray(area) + bytearray(16))
    except Exception as e:  # noqa
        return ('raises', '%s: %s' % (type(e).__name__, e))
    if code != out:
        k = next((i for i in range(min(len(code), len(out))) if code[i] != out[i]), min(len(code), len(out)))
        return ('differs', 'decoded %d bytes, expected %d; first difference at %d' % (len(code), len(out), k))
    return ('ok', None)


def stream_class(rec):
    """overlap / far / plain classification of the copies in a generated stream (for signatures)"""
    s = rec['stream']
    p = 0
    n = 0
    cls = set()
    # re-scan the items (the harness only classifies; the verdict came from the comparison)
    while p < len(s):
        b = s[p]
        if b == 0:
            p += 2
            n += 1
        elif b <= 59:
            p += 1
            n += 1
        else:
            off = (b - 60) * 16 + (s[p + 1] & 15)
            ln = (s[p + 1] >> 4) + 2
            cls.add('overlap' if off < ln else ('far' if off > 3000 else 'plain'))
            p += 2
            n += ln
    return '+'.join(sorted(cls)) or 'literals'


def decoder_side(ctx):
    depth = 3 if ctx.quick else 4
    r = ctx.tlc('Compress', GEN % (depth, 4000, 'exhaustive', 1), name='GenCompress_exh')
    recs = r.jsons
    r2 = ctx.tlc('Compress', GEN % (200, 4000, 'random', 40 if ctx.quick else 400), name='GenCompress_rand', extra=['-seed', str(ctx.seed + 5)])
    recs = recs + r2.jsons
    ctx.notes['generated_streams'] = len(recs)
    res = core.parmap(_dec, recs)
    ok = 0
    for rec, (st, detail) in zip(recs, res):
        if st == 'ok':
            ok += 1
        else:
            ctx.violation('decoder-%s/%s' % (st, stream_class(rec)), 'decompress_code disagrees with the format decoder on a well-formed stream: %s' % detail,
                          {'kind': 'stream', 'stream': rec['stream'], 'out': rec['out']})
    ctx.traces += ok
    ctx.nontrivial += ok
    ctx.evaluations += len(recs)
    far = sum(1 for x in recs if 'far' in stream_class(x))
    ov = sum(1 for x in recs if 'overlap' in stream_class(x))
    ctx.notes['streams_with_overlapping_copy'] = ov
    ctx.notes['streams_with_window_edge_copy'] = far
    ctx.sample({'stream': recs[len(recs) // 3]['stream'][-12:], 'decodes_to_tail': bytes(recs[len(recs) // 3]['out'][-20:]).decode('latin1')})


def structured_texts(rnd, n):
    out = []
    base = b'function _draw()\n cls()\n print("hello world",10,20,7)\nend\n'
    out.append(base)
    out.append(base * 5)
    out.append(b'function _update60()\n x+=1\nend\n' + base)
    out.append(b'-- _update60 mentioned\nx=1')
    out.append(b'y=2 _update60=nil\n')
    out.append(b'_update60\n' + F2)                      # ends in the suffix itself: out of domain
    for d in (3118, 3119, 3120, 3121, 3122, 3134, 3135, 3136, 3137):
        blk = bytes(rnd.randrange(97, 123) for _ in range(19))
        filler = bytes(rnd.choice(b'0123456789=+-*/(){}[]<>,.;: \n') for _ in range(d - 19))
        for ln in (15, 16, 17, 18, 19):
            out.append(blk + filler + blk[:ln] + b'!')
    for k in range(0, 24):
        out.append((b'abcdefghijklmnopq' * 3)[:17 + k])         # ends at every position relative to a block
    for _ in range(n):
        words = [b'if', b'then', b'end', b'x', b'y1', b'foo', b'=', b'+', b'(', b')', b'"s"', b'\n', b' ', b'\xe9', b'\x80\xff', b'123', b'0x1f', b'--c', b'_update60']
        out.append(b''.join(rnd.choice(words) + rnd.choice((b'', b' ')) for _ in range(rnd.randrange(1, 120))))
    return out


def _enc(text):
    from pico8.game import compress
    from pico8.game.formatter import p8png
    rec = {'text': list(text), 'implDecoded': [-1]}
    try:
        stream = bytes(compress.compress_code(text))
    except Exception as e:  # noqa
        return ('raises', 'compress_code: %s: %s' % (type(e).__name__, e), None)
    area = HDR + bytes([(len(text) >> 8) & 255, len(text) & 255]) + b'\x00\x00' + stream
    rec['area'] = list(area)
    try:
        n, code, csize = compress.decompress_code(bytearray(area) + bytearray(8))
        rec['implDecoded'] = list(code)
    except Exception as e:  # noqa
        rec['implDecoded'] = [-2]
    # when the library itself chooses the compressed form, its header must be the one judged
    try:
        full = bytes(p8png.get_bytes_from_code(text))
        if full[:4] == HDR:
            rec['area'] = list(full.rstrip(b'\x00')) if not full.rstrip(b'\x00').endswith(b'\x00') else list(full)
            if len(rec['area']) < 8:
                rec['area'] = list(full[:8])
    except Exception:
        pass
    return ('ok', None, rec)


def in_domain(text):
    return not (text.endswith(F1) or text.endswith(F2) or text.startswith(b'\x00') or text.endswith(b'\x00') or len(text) > 0xffff)


def encoder_side(ctx, rnd):
    r = ctx.tlc('GenText', TEXT_CFG % (6 if ctx.quick else 8), name='GenText_comp')
    texts = [bytes(x['s']) for x in r.jsons]
    texts += structured_texts(rnd, 150 if ctx.quick else 1500)
    allchars = bytes([10, 32]) + b'0123456789abcdefghijklmnopqrstuvwxyz!#%(){}[]<>+=/*:;.,~_'
    texts += [allchars, allchars * 2 + b'x', b'-- ' + bytes(range(1, 256)) + b'\n', b'a != b #c ~= d % e\n' * 3, b'x' * 255, b'y=1\n' * 64, b'z' * 256 + b'\n', b'w' * 511]
    ctx.evaluations += len(texts)
    dom = [t for t in texts if in_domain(t)]
    ctx.out_of_domain += len(texts) - len(dom)
    res = core.parmap(_enc, dom)
    traces, meta = [], []
    for t, (st, err, rec) in zip(dom, res):
        if st != 'ok':
            ctx.violation('encoder-raises', err, {'kind': 'text', 'text': list(t)})
        else:
            traces.append(rec)
            meta.append(t)
    good = {'text': list(b'abcabcabc'), 'area': list(HDR + b'\x00\x09\x00\x00' + bytes([13, 14, 15, 60, 3 + (6 - 2) * 16])), 'implDecoded': [-1]}
    c1 = dict(good, area=good['area'][:-1] + [3 + (5 - 2) * 16])
    c2 = dict(good, area=good['area'][:-2] + [60, 4 + (6 - 2) * 16])
    c3 = dict(good, implDecoded=list(b'abcabcabd'))
    v = ctx.validate('TraceComp', traces + [good, c1, c2, c3])
    ctx.traces -= 4
    if v[-4][0] != 'ok':
        raise core.MachineryError('TraceComp rejects a hand-written well-formed area: %s' % (v[-4],))
    ctx.canary(v[-3][0] == 'text-mismatch', 'copy one byte too short')
    ctx.canary(v[-2][0] == 'bad-offset', 'offset beyond produced output')
    ctx.canary(v[-1][0] == 'impl-decode-mismatch', 'implementation decoded another text')
    for t, vv in zip(meta, v):
        if vv[0] in ('ok', 'ok-raw'):
            ctx.nontrivial += 1
        else:
            kind = 'update60' if b'_update60' in t else ('long' if len(t) > 3000 else 'short')
            ctx.violation('encoder-%s/%s' % (vv[0], kind), 'compressed area for a %d-byte text rejected by the format decoder (%s) at stream offset %d; text starts %r' % (
                len(t), vv[0], vv[1], t[:40]), {'kind': 'text', 'text': list(t)})
    ctx.sample({'text': meta[len(meta) // 2].decode('latin1')[:60], 'area_len': len(traces[len(meta) // 2]['area']), 'verdict': v[len(meta) // 2][0]})


def long_streams(ctx):
    """well-formed streams from another producer that declare more than 32767 bytes (the header holds a 16-bit length):
    one literal and maximal copies at offset 1 / a short period; the decoder machine says what they denote, picotool's
    decoder must agree"""
    from pico8.game import compress
    traces = []
    for n, period in ((40000, 1), (32768, 1), (65535, 3)):
        seed_txt = b'ab('[:period]
        text = (seed_txt * (n // period + 1))[:n]
        table = bytes([10, 32]) + b'0123456789' + b'abcdefghijklmnopqrstuvwxyz' + b'!#%(){}[]<>+=/*:;.,~_'
        stream = bytearray(table.index(c) + 1 for c in seed_txt)
        done = period
        while done < n:
            ln = min(17, n - done)
            if ln < 3:
                stream += bytearray(table.index(c) + 1 for c in text[done:done + ln])
            else:
                stream += bytes([60 + period // 16, ((ln - 2) << 4) | (period % 16)])
            done += ln
        area = HDR + bytes([(n >> 8) & 255, n & 255]) + b'\x00\x00' + bytes(stream)
        rec = {'text': list(text), 'area': list(area), 'implDecoded': [-2]}
        try:
            _, code, _ = compress.decompress_code(bytearray(area) + bytearray(8))
            rec['implDecoded'] = list(code)
        except Exception:
            pass
        traces.append(rec)
    v = ctx.validate('TraceComp', traces, workers=3)
    for t, vv in zip(traces, v):
        ctx.evaluations += 1
        if vv[0] == 'ok':
            ctx.nontrivial += 1
        else:
            ctx.violation('decoder-%s/declared-%s' % (vv[0], 'ge-32768' if len(t['text']) >= 32768 else 'lt-32768'),
                          'a well-formed stream declaring %d bytes: %s (picotool decoded %d bytes)' % (len(t['text']), vv[0], len(t['implDecoded'])), {'kind': 'long-stream', 'n': len(t['text'])})


def run(ctx):
    long_streams(ctx)
    rnd = random.Random(ctx.seed)
    ctx.rule = ('decoder: well-formed streams generated by Compress.tla (exhaustive item sequences from a 20-byte seed over literal classes and edge-focused (offset, len); random 200-item streams reaching the window edge); '
                'encoder: every string up to N over a 4-symbol alphabet plus structured texts; non-trivial = stream decoded as dictated / area accepted by the decoder machine')
    ctx.assumptions = ['Compress.tla / TraceComp.tla state the :c: format (59-entry literal table, copy = (offset, len) with byte-wise copying, header with declared length)',
                       'texts ending in the compatibility suffix or with NUL bytes at either end are outside the domain']
    decoder_side(ctx)
    encoder_side(ctx, rnd)
    ctx.exhaustive = True


def replay(ctx, path):
    rec = json.load(open(path))['replay']
    if rec.get('kind') == 'stream':
        st, detail = _dec(rec)
        if st != 'ok':
            ctx.violation('replay/' + st, detail, rec)
    else:
        st, err, tr = _enc(bytes(rec['text']))
        v = ctx.validate('TraceComp', [tr])
        if v[0][0] not in ('ok', 'ok-raw'):
            ctx.violation('replay/' + v[0][0], 'still rejected', rec)
