"""C12 - require() and #include never read files outside the permitted directories.

PathJail.tla normalises paths component-wise and decides containment; TLC enumerates every
argument of up to N components over {a, foo, foobar, .., ., ""(absolute)} and prints, for three
cart locations (#include) / four load-path configurations (require), the locations the argument
resolves to and whether each lies under a permitted root. The harness builds a sandbox with a
canary file at every such location, runs the real loader / `p8tool build` on each argument with
HOME redirected, records every file opened under the sandbox (sys.addaudithook) and the outcome;
TracePaths.tla judges: every opened file lies under a permitted root, and an argument all of
whose resolutions escape ends in an error.
"""
import json
import os
import random
import shutil
import sys
import tempfile

from .. import core

GEN = '''SPECIFICATION Spec
CONSTANTS MaxLen = %d
Mode = "%s"
CONSTRAINT Emit
INVARIANT NormIdempotent
INVARIANT UnderKeptByNames
CHECK_DEADLOCK FALSE
'''
MUT = '''SPECIFICATION Spec
CONSTANTS MaxLen = 3
Mode = "include"
INVARIANT NoPrefixConfusion
CHECK_DEADLOCK FALSE
'''
_A = {'on': False, 'root': None, 'opens': []}
_HOOKED = [False]


def _hook(event, args):
    if _A['on'] and event == 'open' and args and isinstance(args[0], (str, bytes)):
        try:
            p = args[0] if isinstance(args[0], str) else args[0].decode('latin1')
            p = os.path.abspath(p)
            if p.startswith(_A['root'] + os.sep):
                _A['opens'].append(p)
        except Exception:
            pass


def ensure_hook():
    if not _HOOKED[0]:
        sys.addaudithook(_hook)
        _HOOKED[0] = True


def render_arg(arg, S, semi_abs=False):
    if arg and arg[0] == '':
        return S + '/' + '/'.join(arg[1:]) if len(arg) > 1 else S + '/'
    out = ''
    for k, c in enumerate(arg):
        if k > 0:
            # after a component ending in ";" the rest is written as an absolute path
            out += (S + '/') if (semi_abs and arg[k - 1].endswith(';')) else '/'
        out += c
    return out


def comps_of(path, S):
    return [c for c in os.path.relpath(path, S).split(os.sep) if c not in ('', '.')]


def build_sandbox(S, targets):
    """canary files at every target that is not also needed as a directory"""
    tset = {tuple(t) for t in targets if t}
    dirs = set()
    for resv in (('w', 'foo'), ('w', 'fo?'), ('out',), ('home', '.lexaloffle', 'pico-8', 'carts', 'foo'), ('home', '.lexaloffle', 'pico-8', 'cartsbar', 'foo')):
        for k in range(1, len(resv) + 1):
            dirs.add(resv[:k])
    for t in tset:
        for k in range(1, len(t)):
            dirs.add(t[:k])
    for t in sorted(tset):
        if t in dirs:
            continue
        p = os.path.join(S, *t)
        os.makedirs(os.path.dirname(p), exist_ok=True)
        if not os.path.isdir(p):
            with open(p, 'wb') as f:
                f.write(b'canary=1\n')


_SB = {}


FLAVOURS = {'linux': ('.lexaloffle', 'pico-8'), 'windows': ('AppData', 'Roaming', 'pico-8'), 'macos': ('Library', 'Application Support', 'pico-8')}


def remap(comps, flavour):
    """the PICO-8 carts folder is ~/.lexaloffle/pico-8/carts on Linux (what PathJail.tla prints), ~/AppData/Roaming/pico-8/carts
    on Windows, ~/Library/Application Support/pico-8/carts on macOS: the same component-wise rule for each"""
    comps = list(comps)
    if flavour != 'linux' and comps[:3] == ['home', '.lexaloffle', 'pico-8']:
        return ['home'] + list(FLAVOURS[flavour]) + comps[3:]
    return comps


def _include_case(item):
    """item: (arg, loc case dict, all targets for this location)"""
    arg, case, targets, tmp = item[:4]
    flavour = item[4] if len(item) > 4 else 'linux'
    if flavour != 'linux':
        case = dict(case, cartdir=remap(case['cartdir'], flavour), root=remap(case['root'], flavour))
        targets = [remap(t, flavour) for t in targets]
    from pico8.game import file as gfile
    ensure_hook()
    key = ('inc', case['loc'], flavour)
    if key not in _SB:
        S = tempfile.mkdtemp(prefix='c12i_%s_%s_' % (case['loc'], flavour), dir=tmp)
        build_sandbox(S, targets)
        os.makedirs(os.path.join(S, *case['cartdir']), exist_ok=True)
        os.makedirs(os.path.join(S, *remap(['home', '.lexaloffle', 'pico-8', 'carts'], flavour)), exist_ok=True)
        _SB[key] = S
    S = _SB[key]
    cart = os.path.join(S, *case['cartdir'], 'cart.p8')
    a = render_arg(arg, S)
    inc = (a + '/x.lua') if a != '' and not a.endswith('/') else (a + 'x.lua')
    with open(cart, 'wb') as f:
        f.write(b'pico-8 cartridge // http://www.pico-8.com\nversion 8\n__lua__\n#include ' + inc.encode() + b'\ny=2\n__gfx__\n')
    # a canary also where a loader that resolves the string against the include ROOT (not the cart's directory) would look
    if not inc.startswith('/'):
        alt = os.path.normpath(os.path.join(S, *case['root'], inc))
        if alt.startswith(S + os.sep) and not os.path.exists(alt):
            try:
                os.makedirs(os.path.dirname(alt), exist_ok=True)
                with open(alt, 'wb') as f:
                    f.write(b'canary_root_relative=1\n')
            except OSError:
                pass
    # in every second case the file at the cart-relative resolution is moved away for the load, so that a loader with a
    # second place to look (the include root, the working directory) gets that far
    away = None
    if not inc.startswith('/') and (len(inc) + len(arg)) % 2:
        rel = os.path.normpath(os.path.join(os.path.dirname(cart), inc))
        if os.path.isfile(rel) and rel.startswith(S + os.sep):
            away = rel
            os.rename(rel, rel + '.away')
    old_home = os.environ.get('HOME')
    os.environ['HOME'] = os.path.join(S, 'home')
    _A.update(on=True, root=S, opens=[])
    outcome = 'ok'
    err = ''
    # the ways a user names the cart: absolute, relative to its directory, relative to the parent, with redundant components
    how = (len(inc) + len(arg)) % 4
    cwd = os.getcwd()
    given = cart
    if how == 1:
        os.chdir(os.path.dirname(cart))
        given = 'cart.p8'
    elif how == 2:
        os.chdir(os.path.dirname(os.path.dirname(cart)))
        given = os.path.join(os.path.basename(os.path.dirname(cart)), 'cart.p8')
    elif how == 3:
        given = os.path.join(os.path.dirname(cart), '.', 'cart.p8')
    try:
        gfile.from_file(given)
    except Exception as e:  # noqa
        outcome = 'error'
        err = type(e).__name__
    finally:
        os.chdir(cwd)
        _A['on'] = False
        if away:
            os.rename(away + '.away', away)
        if old_home is None:
            os.environ.pop('HOME', None)
        else:
            os.environ['HOME'] = old_home
    opens = [comps_of(p, S) for p in _A['opens'] if os.path.abspath(p) != os.path.abspath(cart)]
    return {'roots': [case['root']], 'opens': opens, 'mustError': not case['inside'], 'outcome': outcome}, err


def require_stmt(a, form):
    """the ways a cart can write the call: all denote require(<string a>)"""
    a = a.encode()
    esc = b''.join(b'\\x%02x' % c if c in b'./' else bytes([c]) for c in a)
    return (b'local m = require("' + a + b'")\nprint(m)\n',
            b'local m = require "' + a + b'"\nprint(m)\n',
            b"local m = require'" + a + b"'\n",
            b'local m = require[[' + a + b']]\n',
            b'local m = require [==[' + a + b']==] print(m)\n',
            b'local m = require("' + a + b'", {use_game_loop=true})\n',
            b'function f(x)\n if x then\n  return {k = require("' + a + b'")}\n end\nend\n',
            b'local m = require("' + esc + b'")\n',
            b'print(1, require ( "' + a + b'" ).x)\n',
            b'local m = require("' + a + b'")\nprint(m)\n')[form % 10]


def _require_case(item):
    arg, case, targets, tmp, form = item
    from pico8 import tool
    ensure_hook()
    outside_only = isinstance(targets, tuple)
    key = ('req', case['cfg'], outside_only)
    if key not in _SB:
        S = tempfile.mkdtemp(prefix='c12r_%s_' % case['cfg'], dir=tmp)
        build_sandbox(S, targets[0] if outside_only else targets)
        os.makedirs(os.path.join(S, *case['maindir']), exist_ok=True)
        os.makedirs(os.path.join(S, 'out'), exist_ok=True)
        if case['cfg'] == 'qdir':
            # decoys where a loader that substitutes the placeholder inside the directory name would look
            for c in ('a', 'foo', 'foobar'):
                dd = os.path.join(S, 'w', 'fo' + c)
                os.makedirs(dd, exist_ok=True)
                for fn in (c, c + '.lua'):
                    if not os.path.exists(os.path.join(dd, fn)):
                        with open(os.path.join(dd, fn), 'wb') as f:
                            f.write(b'decoy=1\n')
        _SB[key] = S
    S = _SB[key]
    main = os.path.join(S, *case['maindir'], 'main.lua')
    a = render_arg(arg, S, semi_abs=True)
    with open(main, 'wb') as f:
        f.write(require_stmt(a, form))
    out = os.path.join(S, 'out', 'out.p8')
    if os.path.exists(out):
        os.unlink(out)
    # a canary also where a loader that resolves the string against the OUTPUT cart's directory would look
    if not a.startswith('/') and ';' not in a:
        for cand in (a, a + '.lua'):
            alt = os.path.normpath(os.path.join(S, 'out', cand))
            if alt.startswith(S + os.sep) and not os.path.exists(alt) and alt != out:
                try:
                    os.makedirs(os.path.dirname(alt), exist_ok=True)
                    with open(alt, 'wb') as f:
                        f.write(b'canary_out_relative=1\n')
                except OSError:
                    pass
    argv = ['--quiet', 'build', out, '--lua', main]
    env_old = os.environ.get('PICO8_LUA_PATH')
    os.environ.pop('PICO8_LUA_PATH', None)
    if case['cfg'] == 'relative':
        argv += ['--lua-path', 'lib/?.lua;?/init.lua']
    elif case['cfg'] == 'absolute':
        argv += ['--lua-path', S + '/libs/?.lua']
    elif case['cfg'] == 'env':
        os.environ['PICO8_LUA_PATH'] = 'lib/?.lua;?/init.lua'
    _A.update(on=True, root=S, opens=[])
    outcome = 'ok'
    err = ''
    try:
        rc = tool.main(argv)
        if rc not in (0, None):
            outcome = 'error'
            err = 'rc=%s' % rc
    except SystemExit as e:
        if e.code not in (0, None):
            outcome, err = 'error', 'exit %s' % e.code
    except Exception as e:  # noqa
        outcome, err = 'error', type(e).__name__
    finally:
        _A['on'] = False
        os.environ.pop('PICO8_LUA_PATH', None)
        if env_old is not None:
            os.environ['PICO8_LUA_PATH'] = env_old
    skip = {os.path.abspath(main), os.path.abspath(out)}
    opens = [comps_of(p, S) for p in _A['opens'] if os.path.abspath(p) not in skip]
    must = all(not c['inside'] for c in case['cands'])
    return {'roots': case['roots'], 'opens': opens, 'mustError': must, 'outcome': outcome}, err


def arg_class(arg):
    f = []
    if arg and arg[0] == '':
        f.append('abs')
    if '..' in arg:
        f.append('dotdot')
    if 'foobar' in arg:
        f.append('sibling')
    if '' in arg[1:]:
        f.append('emptycomp')
    if any(';' in c or '?' in c for c in arg):
        f.append('special')
    return '+'.join(f) or 'plain'


def run_mode(ctx, mode, maxlen):
    r = ctx.tlc('PathJail', GEN % (maxlen, mode), name='GenPathJail_' + mode)
    recs = r.jsons
    ctx.evaluations += len(recs) * (3 if mode == 'include' else 5)
    items = []
    if mode == 'include':
        for li in range(3):
            targets = [x['cases'][li]['target'] for x in recs]
            for x in recs:
                items.append((x['arg'], x['cases'][li], targets, ctx.tmp))
                if x['cases'][li]['loc'] != 'plain' and len(items) % 3 == 0:
                    items.append((x['arg'], x['cases'][li], targets, ctx.tmp, ('windows', 'macos')[(len(items) // 3) % 2]))
        fn = _include_case
    else:
        for ci in range(5):
            targets = [c['target'] for x in recs for c in x['cases'][ci]['cands']]
            # second sandbox: canaries only at the resolutions that lie OUTSIDE the roots, so that a
            # loader that falls through to an escaping candidate is caught opening it
            outside = ([c['target'] for x in recs for c in x['cases'][ci]['cands'] if not c['inside']],)
            for x in recs:
                items.append((x['arg'], x['cases'][ci], targets, ctx.tmp, len(items)))
                if any(not c['inside'] for c in x['cases'][ci]['cands']):
                    items.append((x['arg'], x['cases'][ci], outside, ctx.tmp, len(items) + 3))
        fn = _require_case
    # group by sandbox key so that each worker builds few sandboxes
    res = core.parmap(fn, items, procs=12, chunksize=max(1, len(items) // 48))
    traces = [t for t, _ in res]
    v = ctx.validate('TracePaths', traces)
    loaded = 0
    for it, (t, err), vv in zip(items, res, v):
        arg, case = it[0], it[1]
        where = case.get('loc') or case.get('cfg')
        if vv[0] == 'ok':
            ctx.nontrivial += 1
            if t['outcome'] == 'ok':
                loaded += 1
        else:
            outside = [o for o in t['opens'] if not any(o[:len(r)] == r and len(o) > len(r) for r in t['roots'])]
            ctx.violation('%s/%s/%s/%s' % (mode, vv[0], where, arg_class(arg)),
                          '%s "%s" (%s): %s; outcome %s %s; opened outside the roots: %s' % (
                              mode, render_arg(arg, '<S>'), where, vv[0], t['outcome'], err, ['/'.join(o) for o in outside][:3]),
                          {'kind': mode, 'arg': arg, 'where': where})
    ctx.notes['%s_loaded_ok' % mode] = loaded
    ctx.notes['%s_cases' % mode] = len(items)
    return recs


def _load_history(item):
    """loads of carts that carry the same file name in nested directories, one after the other in one process, named
    relatively or absolutely: every load is judged on its own (the rule does not depend on what was loaded before)"""
    hist, tmp = item
    from pico8.game import file as gfile
    ensure_hook()
    if 'hist' not in _SB:
        S = tempfile.mkdtemp(prefix='c12h_', dir=tmp)
        for d in ((), ('proj',), ('proj', 'sub'), ('proj', 'sub', 'deep'), ('projx',)):
            os.makedirs(os.path.join(S, *d), exist_ok=True)
            with open(os.path.join(S, *d, 'x.lua'), 'wb') as f:
                f.write(b'canary_' + b'_'.join(c.encode() for c in d) + b'=1\n')
        _SB['hist'] = S
    S = _SB['hist']
    out = []
    cwd = os.getcwd()
    for d, inc, how in hist:
        cartdir = os.path.join(S, *d)
        with open(os.path.join(cartdir, 'cart.p8'), 'wb') as f:
            f.write(b'pico-8 cartridge // http://www.pico-8.com\nversion 8\n__lua__\n#include ' + inc.encode() + b'\ny=2\n__gfx__\n')
        _A.update(on=True, root=S, opens=[])
        outcome = 'ok'
        try:
            if how == 'relative':
                os.chdir(cartdir)
                gfile.from_file('cart.p8')
            else:
                gfile.from_file(os.path.join(cartdir, 'cart.p8'))
        except Exception as e:  # noqa
            outcome = 'error'
        finally:
            os.chdir(cwd)
            _A['on'] = False
        opens = [comps_of(p, S) for p in _A['opens'] if os.path.basename(p) != 'cart.p8']
        out.append({'roots': [list(d)], 'opens': opens, 'mustError': inc.startswith('..'), 'outcome': outcome})
    return out


def nested_require(ctx):
    """a package in a subdirectory requires a name: the roots of THAT require are the package's own directory (and the
    load path relative to it), not the main program's directory"""
    from pico8 import tool
    ensure_hook()
    traces, meta = [], []
    for name, lp in (('b', None), ('lib/b', None), ('b', 'lib/?.lua'), ('b', '?.lua;?/init.lua')):
        S = tempfile.mkdtemp(prefix='c12n_', dir=ctx.tmp)
        for d in ('proj/sub', 'proj/lib', 'proj/sub/lib', 'proj/b', 'out'):
            os.makedirs(os.path.join(S, d), exist_ok=True)
        open(os.path.join(S, 'proj', 'main.lua'), 'wb').write(b'local a = require("sub/a")\n')
        open(os.path.join(S, 'proj', 'sub', 'a.lua'), 'wb').write(b'local b = require("' + name.encode() + b'")\nreturn {}\n')
        # canaries only where the main program's directory (not the package's) would lead
        for rel in ('proj/b.lua', 'proj/lib/b.lua', 'proj/b/init.lua', 'proj/lib/b/init.lua', 'out/b.lua'):
            os.makedirs(os.path.dirname(os.path.join(S, rel)), exist_ok=True)
            open(os.path.join(S, rel), 'wb').write(b'canary=1\n')
        argv = ['--quiet', 'build', os.path.join(S, 'out', 'o.p8'), '--lua', os.path.join(S, 'proj', 'main.lua')] + (['--lua-path', lp] if lp else [])
        _A.update(on=True, root=S, opens=[])
        outcome = 'ok'
        try:
            rc = tool.main(argv)
            if rc not in (0, None):
                outcome = 'error'
        except SystemExit as e:
            outcome = 'error' if e.code not in (0, None) else 'ok'
        except Exception:
            outcome = 'error'
        finally:
            _A['on'] = False
        skip = {os.path.join(S, 'proj', 'main.lua'), os.path.join(S, 'proj', 'sub', 'a.lua'), os.path.join(S, 'out', 'o.p8')}
        opens = [comps_of(p_, S) for p_ in _A['opens'] if os.path.abspath(p_) not in skip]
        traces.append({'roots': [['proj', 'sub']], 'opens': opens, 'mustError': True, 'outcome': outcome})
        meta.append((name, lp))
        shutil.rmtree(S, ignore_errors=True)
    v = ctx.validate('TracePaths', traces)
    for (name, lp), t, vv in zip(meta, traces, v):
        ctx.evaluations += 1
        if vv[0] == 'ok':
            ctx.nontrivial += 1
        else:
            ctx.violation('nested-require/%s/%s' % (vv[0], 'loadpath' if lp else 'default'),
                          'proj/sub/a.lua requires "%s" (load path %s), which exists only relative to the MAIN program\'s directory: %s; outcome %s; opened %s' % (
                              name, lp or 'default', vv[0], t['outcome'], ['/'.join(o) for o in t['opens']]), {'kind': 'nested-require', 'name': name, 'lua_path': lp})


def load_histories(ctx):
    import itertools
    kinds = [(d, inc, how) for d in (('proj',), ('proj', 'sub'), ('proj', 'sub', 'deep')) for inc in ('x.lua', '../x.lua', '../../x.lua', '../projx/x.lua')
             for how in ('relative', 'absolute')]
    hists = [list(p) for p in itertools.product(kinds, repeat=2)]
    if ctx.quick:
        hists = hists[::3]
    res = core.parmap(_load_history, [(h, ctx.tmp) for h in hists], procs=8)
    traces = [t for r in res for t in r]
    v = ctx.validate('TracePaths', traces)
    k = 0
    for h in hists:
        for j, step in enumerate(h):
            vv, t = v[k], traces[k]
            k += 1
            if vv[0] == 'ok':
                ctx.nontrivial += 1
            else:
                ctx.violation('include-history/%s/%s' % (vv[0], step[2]), 'load %d of a history of loads in one process (%s): cart in %s named %sly with #include %s: %s; outcome %s; opened %s' % (
                    j + 1, [('/'.join(x[0]), x[1], x[2]) for x in h], '/'.join(step[0]), step[2], step[1], vv[0], t['outcome'], ['/'.join(o) for o in t['opens']]),
                    {'kind': 'include-history', 'history': [[list(x[0]), x[1], x[2]] for x in h]})
    ctx.evaluations += len(traces)
    ctx.notes['include_history_loads'] = len(traces)


def run(ctx):
    core.quiet_picotool()
    ensure_hook()
    ctx.rule = ('all arguments of <= N path components over {a, foo, foobar, .., ., "" (absolute)}: #include x 3 cart locations (plain directory, inside the PICO-8 carts folder, '
                'in a prefix-sharing sibling of it), require() x 4 load-path settings (default, --lua-path relative, --lua-path absolute, PICO8_LUA_PATH); canary files at every resolution; '
                'non-trivial = load executed, opens recorded and judged')
    ctx.assumptions = ['PathJail.tla decides normal forms and containment component-wise; the sandbox root plays the role of / for absolute arguments',
                       'observation: sys.addaudithook open events under the sandbox; stat-only probes are not violations', 'symlinks and non-POSIX separators are not modelled']
    ctx.model_check('PathJail', MUT, name='MC_PathJail_string_prefix_mutant', expect_violation='NoPrefixConfusion')
    n = 4 if ctx.quick else 5
    recs = run_mode(ctx, 'include', n)
    run_mode(ctx, 'require', n)
    load_histories(ctx)
    nested_require(ctx)
    # canaries
    v = ctx.validate('TracePaths', [{'roots': [['w', 'foo']], 'opens': [['w', 'foobar', 'x.lua']], 'mustError': True, 'outcome': 'ok'},
                                     {'roots': [['w', 'foo']], 'opens': [], 'mustError': True, 'outcome': 'ok'},
                                     {'roots': [['w', 'foo']], 'opens': [['w', 'foo', 'a', 'x.lua']], 'mustError': False, 'outcome': 'ok'}])
    ctx.traces -= 3
    ctx.canary(v[0][0] == 'opened-outside', 'sibling file opened')
    ctx.canary(v[1][0] == 'hostile-accepted', 'escaping argument accepted')
    ctx.canary(v[2][0] == 'ok', 'inside file accepted')
    ctx.exhaustive = True
    ctx.sample({'arg': recs[40]['arg'], 'include_cases': recs[40]['cases']})


def replay(ctx, path):
    run(ctx)
