"""C19 - luamin keeps the title and author comments.

TLC (GenLex over the header piece alphabet) enumerates every header shape of up to N pieces
(comment kinds --, //, block, multi-line block; blank lines, spaces, tabs; code on the same or
the next line; CRLF); each is put in front of program bodies, minified with the real writer and
judged by TraceMinify (focus C19): the output starts with the first <= 2 leading comments
verbatim, each on its own line, and get_title / get_byline are unchanged.
"""
import json
import os
import random

from .. import core, minify, lexref
from .c07 import GEN_CFG

BODIES = [b'y=2\n', b'function _draw()\n cls() -- c\n print("t")\nend\n', b'', b'-- later comment\nz=3 // x\n']


def _mk(item):
    k, rec, body = item
    hdr = bytes(rec['s'])
    if not rec.get('fixed') and not lexref.in_domain(hdr, rec['toks']):
        return ('ood', None, None)
    ncom = 0
    for t in rec['toks']:
        if t['k'] == 'com':
            ncom += 1
        elif t['k'] not in ('sp', 'nl'):
            break
    src = hdr + body
    cfg = ('default', 'keepall')[k % 2]
    out, err = minify.run_minifier(src, keep_all=(cfg == 'keepall'))
    if out is None:
        if err.startswith('load:'):
            return ('ood', None, None)
        return ('raises', err, list(src))
    return ('ok', minify.make_trace(src, out, 'C19', []), (src, out, ncom))


def cli_path(ctx):
    """the header through `p8tool luamin` on cart files (.p8 and .p8.png), incl. comments that merely mention an
    #include directive (a file of that name exists next to the cart)"""
    import tempfile
    from pico8 import tool
    from pico8.game import file as gfile
    from .. import cartio
    d = tempfile.mkdtemp(prefix='c19_', dir=ctx.tmp)
    open(os.path.join(d, 'lib.lua'), 'wb').write(b'lib_loaded=1\n')
    fixture = open(os.path.join(core.VERIF, 'fixtures', 'lua', 'every_node.lua'), 'rb').read()
    srcs = [b'-- my game\n-- by me\nx=1 y=2\n', b'-- title, see #include lib.lua\n-- by me (#include lib.lua)\nx=1 -- #include lib.lua\ny=2\n',
            b'//t\n--[[by\nme]]\nfunction _draw() cls() end -- c\n', b'-- t\n\n-- b\n' + fixture]
    traces, meta = [], []
    for k, src in enumerate(srcs):
        for ext in ('.p8', '.p8.png'):
            ip = os.path.join(d, 'c%d%s' % (k, ext))
            if ext == '.p8':
                open(ip, 'wb').write(b'pico-8 cartridge // http://www.pico-8.com\nversion 16\n__lua__\n' + src + b'__gfx__\n')
            else:
                gfile.to_file(cartio.make_game(cartio.memory((0, 0), {}), src, None, 16), ip)
            outp = ip.replace('.p8', '_fmt.p8', 1)
            try:
                rc = tool.main(['--quiet', 'luamin', ip])
            except SystemExit as e:
                rc = e.code
            except Exception as e:  # noqa
                rc = 'exception %s' % type(e).__name__
            ctx.evaluations += 1
            if rc not in (0, None) or not os.path.exists(outp):
                ctx.violation('cli-fails/luamin%s' % ext, 'p8tool luamin failed on a %s cart (rc=%s): %r' % (ext, rc, src[:40]), {'kind': 'cli', 'src': list(src)})
                continue
            out = cartio.game_code(gfile.from_file(outp))
            traces.append(minify.make_trace(src, out, 'C19', []))
            meta.append((src, out, ext))
    if traces:
        v = ctx.validate('TraceMinify', traces)
        for (src, out, ext), vv in zip(meta, v):
            if vv[0] == 'ok':
                ctx.nontrivial += 1
            elif vv[0] != 'ood':
                ctx.violation('cli-luamin%s/%s' % (ext, vv[0]), 'output of p8tool luamin for a %s cart rejected by the C19 clauses (%s): %r -> %r' % (ext, vv[0], src[:50], out[:50]),
                              {'kind': 'cli', 'src': list(src)})


def run(ctx):
    ctx.rule = ('all header shapes of <= N pieces over a 10-piece alphabet x program bodies; non-trivial = the shape has at least one comment before the first code token')
    ctx.assumptions = ['P8Lex.tla decides what the leading comments are', 'PICO-8 reads the first two comment lines as title and byline']
    n = 4 if ctx.quick else 5
    r = ctx.tlc('GenLex', GEN_CFG % ('PiecesHdr', n), name='GenLex_hdr')
    recs = r.jsons
    ctx.evaluations += len(recs)
    rnd = random.Random(ctx.seed)
    fixture = open(os.path.join(core.VERIF, 'fixtures', 'lua', 'cart_test_gol_p8.lua'), 'rb').read()
    bodies = BODIES + [fixture]
    items = [(k, rec, (fixture if k % 40 == 0 else BODIES[k % len(BODIES)])) for k, rec in enumerate(recs)]      # (the whole token streams are judged: the long body only now and then)
    # "later comments may be dropped but never turn into code, and code never turns into a comment": generated programs in
    # the layouts that put operators next to each other (a/-b, a- -b, x//c) and that scatter comments, behind a two-line header
    from . import c01
    from .. import progs
    sets = [('expr<=7', progs.generate(ctx, 'expr', 7)), ('all<=5', progs.generate(ctx, 'all', 5))] if ctx.quick else c01.gen_sets(ctx)
    pcases = minify.program_cases(ctx, rnd, sets, ('tight', 'comments', 'tight', 'lines'))
    step = max(1, len(pcases) // (1200 if ctx.quick else 12000))
    hdr2 = {'s': list(b'-- t\n//b\n'), 'toks': [{'k': 'com'}, {'k': 'nl'}, {'k': 'com'}, {'k': 'nl'}], 'fixed': True}
    picked = pcases[::step] + minify.operator_adjacency_cases()
    items += [(k, hdr2, src) for k, (name, src, _) in enumerate(picked)]
    traces, meta = [], []
    for st, a, b in core.parmap(_mk, items):
        if st == 'ood':
            ctx.out_of_domain += 1
        elif st == 'raises':
            ctx.violation('writer-raises', 'minifier raised: %s' % a, {'kind': 'hdr', 'src': b})
        else:
            traces.append(a)
            meta.append(b)
    base = b'-- title\n-- by me\nx=1\n'
    out = b'-- title\n-- by me\na=1\n'      # (hand-written: canaries never depend on the code under test)
    cans = [minify.make_trace(base, out.replace(b'-- by me\n', b''), 'C19', []),
            minify.make_trace(base, b' ' + out, 'C19', []),
            minify.make_trace(base, out.replace(b'-- title\n', b'-- title '), 'C19', [])]
    v = ctx.validate('TraceMinify', traces + cans, chunk=30000)
    ctx.traces -= 3
    ctx.canary(v[-3][0] == 'header', 'byline dropped')
    ctx.canary(v[-2][0] == 'header', 'leading space before the title')
    ctx.canary(v[-1][0] == 'header', 'title not on its own line')
    for (src, out, ncom), vv in zip(meta, v):
        if vv[0] == 'ok':
            if ncom > 0:
                ctx.nontrivial += 1
        elif vv[0] == 'ood':
            ctx.out_of_domain += 1
        else:
            hdr_shape = lexref.shape(src[:24])
            ctx.violation('%s/%s' % (vv[0], hdr_shape), 'luamin output rejected by the C19 clauses (%s: header = the first two comments verbatim on their own lines at the top; kind / end-mismatch = code and comments changed places further down): %r -> %r' % (vv[0], src[:40], out[:40]),
                          {'kind': 'hdr', 'src': list(src)})
    cli_path(ctx)
    ctx.exhaustive = True
    if meta:
        s, o, c = meta[len(meta) // 3]
        ctx.sample({'src': s[:80].decode('latin1'), 'out': o[:80].decode('latin1'), 'leading_comments': c})


def replay(ctx, path):
    rec = json.load(open(path))['replay']
    src = bytes(rec['src'])
    out, err = minify.run_minifier(src)
    v = ctx.validate('TraceMinify', [minify.make_trace(src, out or b'', 'C19', [])])
    if v[0][0] not in ('ok', 'ood'):
        ctx.violation('replay/' + v[0][0], 'still rejected', rec)
