"""C11 - a failed cart write never damages the file already at the destination.

FileWrite.tla: the two-phase write protocol (encode to a temporary stream, then copy) with fault
actions is model-checked: a failure while encoding leaves the destination as it was; the
direct-write variant must be rejected by TLC.
Fault enumeration against the real code: for each format {.p8, .p8.png} x destination {absent,
existing} x Lua writer {echo, token minifier, formatter, AST echo}, a dry run counts the K write
calls on the stream handed to the formatter; then one run per k raises OSError at the k-th write
(quick: sampled k), plus internal failure sources (Lua writer raising at the j-th chunk, writer
emitting unparseable Lua, a section encoder raising, the PNG encoder raising, unreadable label
source) and the CLI paths that write over their input (luafmt --overwrite, build OUT with OUT as
a source). Every execution is observed (audit events on the destination path, byte snapshots)
and judged by TraceFileWrite.tla.
"""
import io
import json
import os
import random
import sys
import tempfile

from .. import core, cartio

LEVEL = 'fault_enumeration'

MC = '''SPECIFICATION Spec
CONSTANTS K = %d
Direct = %s
Fallback = %s
INVARIANT FailedWriteIsNoop
INVARIANT UntouchedWhileEncoding
INVARIANT Completes
CHECK_DEADLOCK FALSE
'''

_AUDIT = {'on': False, 'path': None, 'events': []}
_HOOKED = [False]


def _hook(event, args):
    if _AUDIT['on'] and event == 'open' and args and isinstance(args[0], (str, bytes)):
        p = args[0] if isinstance(args[0], str) else args[0].decode('latin1')
        try:
            if os.path.abspath(p) == _AUDIT['path']:
                mode = args[1] if len(args) > 1 and isinstance(args[1], str) else 'r'
                _AUDIT['events'].append({'e': 'open', 'mode': 'w' if any(c in mode for c in 'wax+') else 'r', 'src': '', 'k': 0})
        except Exception:
            pass


class Fault(OSError):
    pass


class StreamProxy:
    """wraps whatever stream the formatter is handed; raises at the k-th write"""

    def __init__(self, inner, fail_at, counter):
        self._inner, self._fail_at, self._c = inner, fail_at, counter

    def write(self, data):
        self._c[0] += 1
        if self._fail_at and self._c[0] == self._fail_at:
            _AUDIT['events'].append({'e': 'fail', 'mode': '', 'src': 'stream-write', 'k': self._c[0]})
            raise Fault('injected failure at write %d' % self._c[0])
        return self._inner.write(data)

    def __getattr__(self, name):
        return getattr(self._inner, name)


def writers():
    from pico8.lua import lua
    return {'echo': (None, None), 'minify': (lua.LuaMinifyTokenWriter, {}), 'fmt': (lua.LuaFormatterWriter, {'indentwidth': 2}),
            'astecho': (lua.LuaASTEchoWriter, {})}


def run_write(path, fmtname, game, writer, fail_at=None, internal=None, j=1, no_tmp=False):
    """One observed write. Returns the trace record and the write count."""
    from pico8.game import file as gfile
    from pico8.game.formatter import p8, p8png
    from pico8.lua import lua
    from pico8.gfx import gfx
    cls = p8.P8Formatter if fmtname == 'p8' else p8png.P8PNGFormatter
    orig = cls.__dict__['to_file']
    counter = [0]

    def patched(c, game_, outstr, *a, **kw):
        return orig.__func__(c, game_, StreamProxy(outstr, fail_at, counter), *a, **kw)
    wcls, wargs = writers()[writer]
    undo = []
    if internal == 'writer-raises':
        base = wcls or lua.LuaEchoWriter

        class Raising(base):
            def to_lines(self):
                n = 0
                for chunk in super().to_lines():
                    n += 1
                    if n == j:
                        _AUDIT['events'].append({'e': 'fail', 'mode': '', 'src': 'lua-writer', 'k': n})
                        raise RuntimeError('injected writer failure at chunk %d' % n)
                    yield chunk
        wcls = Raising
    elif internal == 'writer-unparseable':
        class Garbage(lua.LuaEchoWriter):
            # (unparsable only with the argument it is given: the check of the written code has to use the writer AND its arguments)
            def to_lines(self):
                if (self._args or {}).get('garbage'):
                    yield b'x = = "unterminated\n'
                else:
                    for chunk in super().to_lines():
                        yield chunk
        wcls, wargs = Garbage, {'garbage': True}
    elif internal == 'section-raises':
        o = gfx.Gfx.to_lines

        def bad(self):
            n = 0
            for l in o(self):
                n += 1
                if n == j:
                    _AUDIT['events'].append({'e': 'fail', 'mode': '', 'src': 'section-encoder', 'k': n})
                    raise RuntimeError('injected section failure at row %d' % n)
                yield l
        gfx.Gfx.to_lines = bad
        o2 = gfx.Gfx.to_bytes

        def badb(self):
            _AUDIT['events'].append({'e': 'fail', 'mode': '', 'src': 'section-encoder', 'k': 0})
            raise RuntimeError('injected section failure')
        if fmtname == 'png':
            gfx.Gfx.to_bytes = badb
        undo.append(lambda: (setattr(gfx.Gfx, 'to_lines', o), setattr(gfx.Gfx, 'to_bytes', o2)))
    elif internal == 'png-encoder-raises':
        import png
        o = png.Writer.write

        def bad(self, *a, **kw):
            _AUDIT['events'].append({'e': 'fail', 'mode': '', 'src': 'png-encoder', 'k': 0})
            raise RuntimeError('injected PNG encoder failure')
        png.Writer.write = bad
        undo.append(lambda: setattr(png.Writer, 'write', o))
    before = open(path, 'rb').read() if os.path.exists(path) else None
    kwargs = {}
    if internal == 'bad-label':
        kwargs['label_fname'] = path + '.notapng'
        with open(kwargs['label_fname'], 'wb') as f:
            f.write(b'this is not a png')
    cls.to_file = classmethod(patched)
    _AUDIT.update(on=True, path=os.path.abspath(path), events=[])
    raised = None
    if no_tmp:
        # environment fault: no usable temp directory while the cart is written
        saved_tmp = (tempfile.tempdir, os.environ.get('TMPDIR'))
        tempfile.tempdir = os.path.join(os.path.dirname(path), 'no', 'such', 'tmpdir')
        os.environ['TMPDIR'] = tempfile.tempdir
        undo.append(lambda: (setattr(tempfile, 'tempdir', saved_tmp[0]),
                             os.environ.pop('TMPDIR', None) if saved_tmp[1] is None else os.environ.__setitem__('TMPDIR', saved_tmp[1])))
    try:
        gfile.to_file(game, path, lua_writer_cls=wcls, lua_writer_args=wargs, **kwargs)
    except BaseException as e:  # noqa
        raised = '%s: %s' % (type(e).__name__, str(e)[:60])
        if not any(ev['e'] == 'fail' for ev in _AUDIT['events']):
            _AUDIT['events'].append({'e': 'fail', 'mode': '', 'src': internal or 'other', 'k': 0})
    finally:
        _AUDIT['on'] = False
        cls.to_file = orig
        for u in undo:
            u()
    after = open(path, 'rb').read() if os.path.exists(path) else None
    rec = {'mustFail': internal == 'writer-unparseable', 'dest0': 'absent' if before is None else 'old', 'events': list(_AUDIT['events']), 'raised': raised is not None,
           'destAfter': 'absent' if after is None else ('old' if after == before else 'new')}
    return rec, counter[0], raised


def sample_cart():
    rnd = random.Random(5)
    mem = cartio.memory((3, 9), cartio.sparse_overrides(rnd, 30))
    code = open(os.path.join(core.VERIF, 'fixtures', 'lua', 'extra_game.lua'), 'rb').read()
    return cartio.make_game(mem, code, None, 16)


def run(ctx):
    if not _HOOKED[0]:
        sys.addaudithook(_hook)
        _HOOKED[0] = True
    rnd = random.Random(ctx.seed)
    ctx.rule = ('fault points: every write-call index k on the stream handed to the formatter (quick: every 7th plus the first and last 5) and the internal failure sources '
                '(Lua writer at chunk j, unparseable writer output, section encoder at row n, PNG encoder, unreadable label) x {.p8, .p8.png} x {destination absent, existing} x 4 Lua writers; '
                'plus luafmt --overwrite and build over its own source; non-trivial = a fault was injected and the execution was judged')
    ctx.assumptions = ['observation: sys.addaudithook open events on the destination path + byte snapshots before / after',
                       'failures during the final copy to the destination (disk full) are outside the statement (it speaks of failures while producing the cart)']
    ctx.model_check('FileWrite', MC % (5, 'FALSE', 'FALSE'), name='MC_FileWrite')
    ctx.model_check('FileWrite', MC % (3, 'TRUE', 'FALSE'), name='MC_FileWrite_direct_write_mutant', expect_violation=('FailedWriteIsNoop', 'UntouchedWhileEncoding'))
    ctx.model_check('FileWrite', MC % (3, 'FALSE', 'TRUE'), name='MC_FileWrite_fallback_mutant', expect_violation=('FailedWriteIsNoop', 'UntouchedWhileEncoding'))
    d = tempfile.mkdtemp(prefix='c11_', dir=ctx.tmp)
    game = sample_cart()
    old_bytes = {'p8': None, 'png': None}
    # the "existing" destination: a different cart written beforehand
    other = cartio.make_game(cartio.memory((1, 1), {}), b'-- old\nprint("old")\n' * 3, None, 8)
    traces, meta = [], []
    n_run = 0
    for fmtname, ext in (('p8', '.p8'), ('png', '.p8.png')):
        for dest0 in ('absent', 'old'):
            for wname in writers():
                if ctx.quick and wname in ('astecho',) and fmtname == 'p8' and dest0 == 'absent':
                    continue
                path = os.path.join(d, 'dest_%s_%s_%s%s' % (fmtname, dest0, wname, ext))

                def reset():
                    if os.path.exists(path):
                        os.unlink(path)
                    if dest0 == 'old':
                        from pico8.game import file as gfile
                        gfile.to_file(other, path)
                reset()
                rec, K, raised = run_write(path, fmtname, game, wname)
                traces.append(rec)
                meta.append(('%s/%s/%s/dry' % (fmtname, dest0, wname), raised))
                if raised:
                    continue
                ks = list(range(1, K + 1))
                if ctx.quick:
                    ks = sorted(set(ks[:5] + ks[-5:] + ks[::7]))
                elif fmtname == 'p8' and wname != 'echo':
                    ks = sorted(set(ks[:20] + ks[-20:] + ks[::3]))
                for k in ks:
                    reset()
                    rec, _, raised = run_write(path, fmtname, game, wname, fail_at=k)
                    traces.append(rec)
                    meta.append(('%s/%s/%s/k=%d' % (fmtname, dest0, wname, k), raised))
                    n_run += 1
                internals = [('writer-raises', 1), ('writer-raises', 3), ('section-raises', 1), ('section-raises', 100)]
                if fmtname == 'p8':
                    internals.append(('writer-unparseable', 0))
                else:
                    internals += [('png-encoder-raises', 0), ('bad-label', 0)]
                for src, j in internals:
                    reset()
                    rec, _, raised = run_write(path, fmtname, game, wname, internal=src, j=j)
                    traces.append(rec)
                    meta.append(('%s/%s/%s/%s@%d' % (fmtname, dest0, wname, src, j), raised))
                    n_run += 1
                # the same with no usable temp directory (TempUnavailable in FileWrite.tla): alone, and together with a production fault
                for k2, src, j in ((None, None, 1), (1, None, 1), (min(K, 9), None, 1), (None, 'writer-raises', 2), (None, 'section-raises', 3)) + \
                        (((None, 'writer-unparseable', 0),) if fmtname == 'p8' else ((None, 'png-encoder-raises', 0),)):
                    reset()
                    rec, _, raised = run_write(path, fmtname, game, wname, fail_at=k2, internal=src, j=j, no_tmp=True)
                    traces.append(rec)
                    meta.append(('%s/%s/%s/no-tmpdir+%s' % (fmtname, dest0, wname, src or ('k=%s' % k2)), raised))
                    n_run += 1
    cli_traces(ctx, d, traces, meta)
    cli_multi(ctx, d, traces, meta)
    from .. import system
    system.run(ctx, 'C11')
    # canaries (hand-written observations)
    cans = [({'dest0': 'old', 'events': [{'e': 'open', 'mode': 'w', 'src': '', 'k': 0}, {'e': 'fail', 'mode': '', 'src': 'stream-write', 'k': 3}], 'raised': True, 'destAfter': 'new'}, 'destination-opened-before-success'),
            ({'dest0': 'old', 'events': [{'e': 'fail', 'mode': '', 'src': 'stream-write', 'k': 3}], 'raised': True, 'destAfter': 'absent'}, 'destination-damaged'),
            ({'dest0': 'absent', 'events': [{'e': 'fail', 'mode': '', 'src': 'lua-writer', 'k': 1}], 'raised': True, 'destAfter': 'new'}, 'destination-damaged'),
            ({'dest0': 'absent', 'events': [{'e': 'fail', 'mode': '', 'src': 'x', 'k': 1}], 'raised': True, 'destAfter': 'absent'}, 'ok')]
    v = ctx.validate('TraceFileWrite', traces + [c for c, _ in cans])
    ctx.traces -= len(cans)
    for (c, want), vv in zip(cans, v[len(traces):]):
        ctx.canary(vv[0] == want, want)
    injected = 0
    for (name, raised), rec, vv in zip(meta, traces, v):
        if any(e['e'] == 'fail' for e in rec['events']):
            injected += 1
        if vv[0] == 'ok':
            ctx.nontrivial += 1
        else:
            parts = name.split('/')
            src = next((e['src'] for e in rec['events'] if e['e'] == 'fail'), 'none')
            ctx.violation('%s/%s/%s/%s' % (vv[0], parts[0], parts[1], src), 'write %s: %s (raised: %s; destination before %s, after %s; events %s)' % (
                name, vv[0], raised, rec['dest0'], rec['destAfter'], [(e['e'], e['mode'] or e['src']) for e in rec['events']][:6]), {'kind': 'fault', 'case': name})
    ctx.evaluations += len(traces)
    ctx.notes['faults_injected'] = injected
    ctx.sample({'case': meta[5][0], 'events': traces[5]['events'], 'destAfter': traces[5]['destAfter'], 'verdict': v[5][0]})


def cli_traces(ctx, d, traces, meta):
    """luafmt --overwrite and build OUT (OUT is also a source) with a failing Lua writer."""
    from pico8 import tool
    from pico8.game import file as gfile
    from pico8.lua import lua
    game = sample_cart()
    for cmd in ('luafmt-overwrite', 'build-over-source'):
        path = os.path.join(d, 'cli_%s.p8' % cmd)
        gfile.to_file(game, path)
        before = open(path, 'rb').read()
        target = lua.LuaFormatterWriter if cmd == 'luafmt-overwrite' else lua.LuaEchoWriter
        orig = target.to_lines

        def bad(self):
            n = 0
            for c in orig(self):
                n += 1
                if n == 4:
                    _AUDIT['events'].append({'e': 'fail', 'mode': '', 'src': 'lua-writer', 'k': n})
                    raise RuntimeError('injected')
                yield c
        target.to_lines = bad
        _AUDIT.update(on=True, path=os.path.abspath(path), events=[])
        raised = None
        try:
            if cmd == 'luafmt-overwrite':
                rc = tool.main(['--quiet', 'luafmt', '--overwrite', path])
            else:
                rc = tool.main(['--quiet', 'build', path, '--lua', path])
            if rc not in (0, None):
                raised = 'rc=%s' % rc
        except BaseException as e:  # noqa
            raised = '%s: %s' % (type(e).__name__, str(e)[:60])
        finally:
            _AUDIT['on'] = False
            target.to_lines = orig
        after = open(path, 'rb').read() if os.path.exists(path) else None
        if not any(ev['e'] == 'fail' for ev in _AUDIT['events']):
            continue        # the failing writer was not on this command's path: nothing injected
        traces.append({'dest0': 'old', 'events': list(_AUDIT['events']), 'raised': True,
                       'destAfter': 'absent' if after is None else ('old' if after == before else 'new')})
        meta.append(('cli/old/%s' % cmd, raised))


def cli_multi(ctx, d, traces, meta):
    """`p8tool luafmt a.p8 b.p8` / `luamin a.p8.png b.p8.png`: the second cart fails while it is produced
    (the Lua writer raises a parser error, as it does for unparseable code); the file already at the
    second cart's output path (from an earlier run) must stay as it is."""
    from pico8 import tool
    from pico8.game import file as gfile
    from pico8.lua import lua, parser
    game = sample_cart()
    for cmd, ext, wcls in (('luafmt', '.p8', lua.LuaFormatterWriter), ('luamin', '.p8.png', lua.LuaMinifyTokenWriter), ('writep8', '.p8', lua.LuaEchoWriter)):
        a = os.path.join(d, 'multi_%s_a%s' % (cmd, ext))
        b = os.path.join(d, 'multi_%s_b%s' % (cmd, ext))
        gfile.to_file(game, a)
        gfile.to_file(game, b)
        outb = b[:-len(ext)] + '_fmt' + ext
        try:
            tool.main(['--quiet', cmd, b])          # an earlier, successful run leaves b_fmt behind
        except SystemExit:
            pass
        if not os.path.exists(outb):
            continue
        before = open(outb, 'rb').read()
        orig = wcls.to_lines
        calls = [0]
        per_cart = 2 if ext == '.p8' else 1        # the .p8 writer walks the code twice (sanity parse + write)

        def bad(self, _orig=orig, _calls=calls):
            _calls[0] += 1
            if _calls[0] > per_cart:
                _AUDIT['events'].append({'e': 'fail', 'mode': '', 'src': 'lua-writer', 'k': _calls[0]})
                raise parser.ParserError('injected: code of the second cart cannot be written', token=None)
            for c in _orig(self):
                yield c
        wcls.to_lines = bad
        _AUDIT.update(on=True, path=os.path.abspath(outb), events=[])
        raised = None
        try:
            rc = tool.main(['--quiet', cmd, a, b])
            if rc not in (0, None):
                raised = 'rc=%s' % rc
        except BaseException as e:  # noqa
            raised = '%s: %s' % (type(e).__name__, str(e)[:60])
        finally:
            _AUDIT['on'] = False
            wcls.to_lines = orig
        if not any(ev['e'] == 'fail' for ev in _AUDIT['events']):
            continue
        after = open(outb, 'rb').read() if os.path.exists(outb) else None
        traces.append({'dest0': 'old', 'events': list(_AUDIT['events']), 'raised': True,
                       'destAfter': 'absent' if after is None else ('old' if after == before else 'new')})
        meta.append(('cli/old/%s-two-carts' % cmd, raised))


def replay(ctx, path):
    run(ctx)
