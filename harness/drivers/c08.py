"""C08 - the parser consumes every valid program and builds the tree it denotes.

Pipeline A: GenProg (TLC) enumerates all leftmost derivations of the dialect grammar up to a
token bound (plus deep simulated ones); each is rendered in several layouts, parsed by the real
parser, and the tree's production sequence must equal the derivation TLC printed, with every
token consumed.
Pipeline B: trees of fixtures / layout mutations -> production events -> TraceSyn acceptor (TLC).
"""
import json
import random

from .. import lexref, core, progs, ast2deriv
from .c07 import fixture_sources, layout_mutations

STAT_PRODS = {'Assign', 'CallStat', 'Do', 'While', 'Repeat', 'If', 'ShortIf', 'ForStep', 'ForIn',
              'Function', 'LocalFunc', 'Local', 'Goto', 'LabelSt', 'StRet', 'StBreak', 'St1Ret', 'St1Break',
              'TFunc', 'Elif', 'Else', 'SElse', 'SElseEmpty'}


def parse_trace(src):
    try:
        return ast2deriv.trace(src), None
    except Exception as e:  # noqa
        return None, '%s: %s' % (type(e).__name__, str(e)[:80])


def _ctx_of(deriv, k):
    st = [p for p in deriv[:k] if p in STAT_PRODS]
    return '>'.join(st[-3:])


def judge(item):
    """item = (beh_json, layout, seed). Returns (status, sig, detail, src)."""
    beh, layout, seed = item
    rnd = random.Random(seed)
    # (one program in four ends without a final newline, one in eight has CR LF line ends)
    src = progs.render(beh, layout, rnd, final_newline=(seed % 4 != 1), crlf=(seed % 8 == 3 and layout != 'comments'))
    if src is None:
        return ('unrenderable', None, None, None)
    want = beh['deriv']
    nreal = len(progs.real_tokens(beh))
    tr, err = parse_trace(src)
    if tr is None:
        import re
        msg = re.sub(r'\d+', 'N', err)
        return ('viol', 'rejects/%s@%s' % (msg.split(' at ')[0][:50], _ctx_of(want, len(want))), err, src)
    got = tr['deriv']
    if got != want:
        k = next((i for i in range(min(len(got), len(want))) if got[i] != want[i]), min(len(got), len(want)))
        w = want[k] if k < len(want) else 'END'
        g = got[k] if k < len(got) else 'END'
        return ('viol', 'deriv/%s->%s@%s' % (w, g, _ctx_of(want, k)), 'production %d: expected %s, tree has %s' % (k, w, g), src)
    nsemi = sum(1 for x in tr['toks'] if x['k'] == 'sym' and x['t'] == ';')
    ngen_semi = sum(1 for x in progs.real_tokens(beh) if x['w'] == [59])
    if tr['consumed'] != len(tr['toks']) or len(tr['toks']) - nsemi != nreal - ngen_semi:
        return ('viol', 'consumed/%s' % _ctx_of(want, len(want)), 'consumed %d of %d tokens (%d generated)' % (tr['consumed'], len(tr['toks']), nreal), src)
    return ('ok', None, None, src)


def run_gen(ctx, behs, layouts, label, seed0):
    items = []
    for k, b in enumerate(behs):
        if not progs.real_tokens(b):
            continue
        for lay in layouts:
            items.append((b, lay, seed0 + k))
    res = core.parmap(judge, items)
    ok = unr = 0
    for (b, lay, _), (st, sig, detail, src) in zip(items, res):
        if st == 'ok':
            ok += 1
        elif st == 'unrenderable':
            unr += 1
        else:
            ctx.violation(sig, 'parser disagrees with the derivation (%s layout): %s' % (lay, detail),
                          {'kind': 'gen', 'src': list(src), 'deriv': b['deriv'], 'layout': lay})
    ctx.traces += ok
    ctx.evaluations += len(items)
    ctx.nontrivial += ok
    ctx.out_of_domain += unr
    ctx.notes.setdefault('generated', []).append({'set': label, 'behaviours': len(behs), 'layouts': list(layouts),
                                                  'parsed_equal': ok, 'unrenderable': unr})
    return ok


def reuse_histories(ctx, behs, rnd, n):
    """One Lua object (one lexer + one parser) fed several programs in a row with update_from_lines,
    and one Parser given several token lists: state carried from one parse to the next must not
    change the tree of the concatenation / of the later program."""
    from pico8.lua import lua, lexer, parser
    from .. import ast2deriv
    pool = [b for b in behs if progs.real_tokens(b)]
    good = 0
    for k in range(n):
        picks = [pool[rnd.randrange(len(pool))] for _ in range(3)]
        srcs = [progs.render(b, 'spaced', rnd) for b in picks]
        if any(s is None for s in srcs):
            continue
        # (a) one Parser, several independent token lists
        P = parser.Parser(version=8)
        bad = None
        for b, s in zip(picks, srcs):
            lx = lexer.Lexer(version=8)
            try:
                lx.process_lines([s])
                P.process_tokens(lx.tokens)
                v = ast2deriv.V(lx.tokens)
                v.chunk(P.root)
                if v.d != b['deriv']:
                    bad = ('deriv', s)
            except Exception as e:  # noqa
                bad = ('raises %s' % type(e).__name__, s)
            if bad:
                break
        # (b) one Lua object updated with the programs one after the other: the tree of the concatenation
        if not bad:
            try:
                whole = ast2deriv.trace(b''.join(srcs))['deriv']
            except Exception:
                whole = None        # the concatenation is not a program the visitor handles: not judged
        if not bad and whole is not None:
            L = lua.Lua(8)
            try:
                for s in srcs:
                    L.update_from_lines([s])
                v = ast2deriv.V(L.tokens)
                v.chunk(L.root)
                if v.d != whole:
                    bad = ('deriv-incremental', b''.join(srcs))
            except Exception as e:  # noqa
                bad = ('raises-incremental %s' % type(e).__name__, b''.join(srcs))
        if bad:
            ctx.violation('parser-reuse/%s' % bad[0].split()[0], 'a parser / Lua object used for several programs in a row builds a different tree (%s) for %r' % (bad[0], bad[1][:80]),
                          {'kind': 'reuse', 'srcs': [list(s) for s in srcs]})
        else:
            good += 1
    ctx.traces += good
    ctx.nontrivial += good
    ctx.evaluations += n
    ctx.notes['parser_reuse_histories'] = n


def syn_traces(ctx, sources):
    traces, meta = [], []
    for name, src in sources:
        tr, err = parse_trace(src)
        if tr is None:
            ctx.out_of_domain += 1      # not parsed by picotool: C09's no-silent-loss clause
            continue
        traces.append({'toks': tr['toks'], 'deriv': tr['deriv'], 'consumed': tr['consumed']})
        meta.append((name, src))
    if not traces:
        return
    can = json.loads(json.dumps(traces[0]))
    can['deriv'][len(can['deriv']) // 2] = 'While' if can['deriv'][len(can['deriv']) // 2] != 'While' else 'Do'
    can2 = json.loads(json.dumps(traces[0]))
    can2['toks'] = can2['toks'][:-1]
    verdicts = ctx.validate('TraceSyn', traces + [can, can2])
    ctx.traces -= 2
    if verdicts[0][0] == 'ok':
        ctx.canary(verdicts[-2][0] != 'ok', 'derivation event corrupted')
        ctx.canary(verdicts[-1][0] != 'ok', 'last token dropped')
    for (name, src), v in zip(meta, verdicts):
        if v[0] == 'ok':
            ctx.nontrivial += 1
        else:
            ti, di = v[1], v[2]
            ctx.violation('trace-%s' % v[0], 'tree of %s rejected by the grammar acceptor (%s) at token %d, event %d' % (name, v[0], ti, di),
                          {'kind': 'trace', 'src': list(src)})
    ctx.sample({'trace': meta[0][0], 'tokens': len(traces[0]['toks']), 'events': len(traces[0]['deriv']), 'verdict': verdicts[0][0]})


def _walk_cov(item):
    """the tree as the library's generic walker (BaseASTWalker, the one build's RequireWalker and the AST writers derive from)
    walks it: with the default handlers it must reach every token stored anywhere in the tree"""
    name, src = item
    from pico8.lua import lua, lexer, parser
    try:
        L = lua.Lua.from_lines([src], 8)
    except Exception:
        return None

    class Collect(lua.BaseASTWalker):
        def _walk_token(self, token):
            yield id(token)
    got = sorted(Collect(L.tokens, L.root).walk())
    want = []

    def visit(v):
        if isinstance(v, parser.Node):
            for f in v._fields:
                visit(getattr(v, f))
        elif isinstance(v, lexer.Token):
            want.append(id(v))
        elif isinstance(v, (list, tuple)):
            for x in v:
                visit(x)
    visit(L.root)
    return (len(want), len(got), sorted(want) == got)


def _printast(item):
    """`p8tool printast`: the printed tree must show every token stored in the tree, in full (kind and spelling), in
    the order of a depth-first walk"""
    name, src, tmp = item
    import io
    import os
    import re
    import tempfile
    import shutil
    from pico8 import tool, util
    from pico8.lua import lua, lexer, parser
    if any(c >= 128 or (c < 32 and c not in (9, 10)) for c in src) or re.search(rb'(^|\n)__\w+__\n', src):
        return None
    try:
        L = lua.Lua.from_lines([src if src.endswith(b'\n') else src + b'\n'], 8)
    except Exception:
        return None
    want = []

    def visit(v):
        if isinstance(v, parser.Node):
            for f in v._fields:
                visit(getattr(v, f))
        elif isinstance(v, lexer.Token):
            want.append((type(v).__name__, bytes(v._data) if not isinstance(v, lexer.TokString) else None))
        elif isinstance(v, (list, tuple)):
            for x in v:
                visit(x)
    visit(L.root)
    d = tempfile.mkdtemp(prefix='c08p_', dir=tmp)
    fp = os.path.join(d, 'c.p8')
    with open(fp, 'wb') as f:
        f.write(b'pico-8 cartridge // http://www.pico-8.com\nversion 8\n__lua__\n' + (src if src.endswith(b'\n') else src + b'\n') + b'__gfx__\n')
    buf = io.StringIO()
    old = util._write_stream
    util._write_stream = buf
    try:
        rc = tool.main(['printast', fp])
    except SystemExit as e:
        rc = e.code
    except Exception as e:  # noqa
        rc = 'exception %s' % type(e).__name__
    finally:
        util._write_stream = old
    shutil.rmtree(d, ignore_errors=True)
    text = buf.getvalue()
    got = []
    import ast
    for m in re.finditer(r"(Tok[A-Za-z]+)<(b['\"].*?), line -?\d+ char -?\d+>", text, re.S):
        try:
            data = ast.literal_eval(m.group(2))
        except Exception:
            data = None
        got.append((m.group(1), data))
    want_cmp = [(k, dta) for k, dta in want]
    got_cmp = [(k, (dta if k != 'TokString' else None)) for k, dta in got]
    return (rc, len(want_cmp), len(got_cmp), want_cmp == got_cmp, next((i for i, (a, b) in enumerate(zip(want_cmp, got_cmp)) if a != b), -1))


def printast_cli(ctx, sources):
    res = core.parmap(_printast, [(n, s_, ctx.tmp) for n, s_ in sources], procs=16, min_parallel=8)
    for (name, src), r in zip(sources, res):
        if r is None:
            continue
        ctx.evaluations += 1
        if r[0] in (0, None) and r[3]:
            ctx.nontrivial += 1
            ctx.traces += 1
        else:
            ctx.violation('printast/%s' % ('fails' if r[0] not in (0, None) else 'token-not-shown'),
                          'p8tool printast for %s (rc %s) shows %d tokens where the tree holds %d; first difference at token %d: %r' % (name, r[0], r[2], r[1], r[4], src[:60]),
                          {'kind': 'printast', 'src': list(src)})


def walker_coverage(ctx, sources):
    res = core.parmap(_walk_cov, sources)
    n = 0
    for (name, src), r in zip(sources, res):
        if r is None:
            continue
        n += 1
        ctx.evaluations += 1
        if r[2]:
            ctx.nontrivial += 1
            ctx.traces += 1
        else:
            ctx.violation('walker-skips/%s' % lexref.shape(src[:12]), 'the generic tree walker reaches %d of the %d tokens stored in the tree of %s: %r' % (r[1], r[0], name, src[:60]),
                          {'kind': 'walker', 'src': list(src)})
    ctx.notes['walker_coverage_programs'] = n


def run(ctx):
    rnd = random.Random(ctx.seed)
    ctx.rule = ('GenProg: all leftmost derivations of the dialect grammar with <= N tokens (modes all / skeleton / expr) and '
                'simulated deep derivations; each rendered in the layouts tight, spaced, one-token-per-line, comments, semicolons; '
                'non-trivial = renderable and non-empty. TraceSyn: recorded trees of fixtures and layout mutations.')
    ctx.assumptions = ['LuaSyntax.tla (95 productions) is the dialect grammar; expressions are compared flat (source order)',
                       'harness: tree-to-derivation visitor (ast2deriv.py) and renderer (progs.py) are trusted',
                       'not in the dialect: `if c do`, short while, `?` with non-string arguments, newer compound operators']
    lay = progs.LAYOUTS
    if ctx.quick:
        run_gen(ctx, progs.generate(ctx, 'all', 6), ('tight', 'lines', 'comments'), 'all<=6', ctx.seed)
        run_gen(ctx, progs.generate(ctx, 'skeleton', 8), ('spaced', 'semis'), 'skeleton<=8', ctx.seed)
        run_gen(ctx, progs.generate(ctx, 'blocks', 10), ('tight', 'comments'), 'blocks<=10', ctx.seed)
        run_gen(ctx, progs.generate(ctx, 'shortif', 15), lay, 'shortif<=15', ctx.seed)
        run_gen(ctx, progs.generate(ctx, 'all', 40, max_depth=4, simulate=300), lay, 'simulated<=40', ctx.seed)
    else:
        run_gen(ctx, progs.generate(ctx, 'all', 7), lay, 'all<=7', ctx.seed)
        run_gen(ctx, progs.generate(ctx, 'skeleton', 9), ('tight', 'lines', 'comments'), 'skeleton<=9', ctx.seed)
        run_gen(ctx, progs.generate(ctx, 'blocks', 12), ('tight', 'lines', 'semis'), 'blocks<=12', ctx.seed)
        run_gen(ctx, progs.generate(ctx, 'expr', 9), ('tight', 'comments'), 'expr<=9', ctx.seed)
        run_gen(ctx, progs.generate(ctx, 'shortif', 19), lay, 'shortif<=19', ctx.seed)
        run_gen(ctx, progs.generate(ctx, 'all', 60, max_depth=5, simulate=4000), lay, 'simulated<=60', ctx.seed)
    reuse_histories(ctx, progs.generate(ctx, 'shortif', 15 if ctx.quick else 19) + progs.generate(ctx, 'all', 6 if ctx.quick else 7), rnd, 300 if ctx.quick else 3000)
    ctx.exhaustive = True
    srcs = [s for s in fixture_sources() if s[0] != 'lexer_valid.lua']   # (contains `if (c) stmt end`, not a valid program)
    extra = []
    for name, src in srcs:
        for k, m in enumerate(layout_mutations(src, rnd, 3 if ctx.quick else 10)):
            extra.append(('%s~%d' % (name, k), m))
    from .c09 import SHORTIF_PROBES
    syn_traces(ctx, srcs + extra + [('shortif-probe%d' % k, x) for k, x in enumerate(SHORTIF_PROBES)])
    walker_coverage(ctx, srcs + progs.program_sources(ctx, rnd, 300 if ctx.quick else 3000))
    longtok = [('long-tokens', b'a_very_long_identifier_name_of_more_than_32_bytes = "a long string literal with more than 32 bytes in it" + 1234567890.12345\n'
                               b'another_very_long_identifier_name_of_more_than_32_bytes_b = another_very_long_identifier_name_of_more_than_32_bytes_c\n')]
    printast_cli(ctx, longtok + srcs + progs.program_sources(ctx, rnd, 60 if ctx.quick else 600))
    b = progs.generate(ctx, 'all', 6 if ctx.quick else 7)[-1]
    ctx.sample({'gen': 'GenProg', 'src': progs.render(b, 'spaced').decode('latin1'), 'deriv': b['deriv']})


def replay(ctx, path):
    rec = json.load(open(path))['replay']
    src = bytes(rec['src'])
    if rec.get('deriv'):
        tr, err = parse_trace(src)
        if tr is None or tr['deriv'] != rec['deriv']:
            ctx.violation('replay', 'replayed program still parses differently: %s' % (err or 'derivation differs'), rec)
    else:
        syn_traces(ctx, [('replay', src)])
