"""C17 - section accessors read back what was set and touch nothing else.

CartMem.tla is the plain model of the documented accessor semantics over the unified memory map
(gfx / map incl. the aliased rows 32-63 / gff / sfx notes and properties / music channels and
flags, with clipping at the right and bottom edges). TLC draws histories of operations with
edge-focused arguments and prints, after every step, the return value and the complete expected
memory (prior pattern + overrides). The harness steps real Gfx / Map / Gff / Sfx / Music objects
(Map sharing the Gfx) and compares the return value and all 17152 bytes after every step.
MC_CartMem (exhaustive, small) checks the model's own laws: frame, read-after-write, aliasing.
"""
import json
import random

from .. import core

CFG = '''SPECIFICATION Spec
CONSTANTS BaseMul = %d
BaseAdd = %d
MaxSteps = %d
NSeq = %d
Mode = "%s"
CONSTRAINT Emit
CHECK_DEADLOCK FALSE
'''
SIZES = (('gfx', 0x2000), ('map', 0x1000), ('gff', 0x100), ('music', 0x100), ('sfx', 0x1100))


def base(a, mul, add):
    return (a * mul + (a // 64) * 13 + add) % 256


ORIGINS = ('direct', 'empty-game', 'p8', 'p8-map-first', 'p8-label-last', 'p8-label-first', 'png', 'p8-no-map', 'p8-no-gfx', 'p8-no-label')
_LOADED = {}


def loaded_game(origin, mul, add, tmp):
    """A Game as the loaders build it (section objects and their links are the loader's), holding the pattern memory.
    The file is produced once per (origin, pattern); every history works on a deep copy (which keeps the links)."""
    import copy
    import os
    import re
    import tempfile
    from pico8.game import game, file as gfile
    from .. import cartio
    key = (origin, mul, add)
    if key not in _LOADED:
        mem = bytes(base(a, mul, add) for a in range(0x4300))
        if origin == 'empty-game':
            g = game.Game.make_empty_game()
        else:
            src = cartio.make_game(mem, b'x=1\n', cartio.label_bytes((5, 9), {}), 16)
            d = tempfile.mkdtemp(prefix='c17_', dir=tmp)
            if origin == 'png':
                fp = os.path.join(d, 'c.p8.png')
                gfile.to_file(src, fp)
            else:
                fp = os.path.join(d, 'c.p8')
                gfile.to_file(src, fp)
                text = open(fp, 'rb').read()
                parts = re.split(rb'(?m)^(?=__\w+__$)', text)
                head, secs = parts[0], {re.match(rb'__(\w+)__', x).group(1).decode(): x for x in parts[1:]}
                order = {'p8': ['lua', 'gfx', 'label', 'gff', 'map', 'sfx', 'music'],
                         'p8-map-first': ['lua', 'map', 'gfx', 'gff', 'label', 'sfx', 'music'],
                         'p8-label-last': ['lua', 'gfx', 'gff', 'map', 'sfx', 'music', 'label'],
                         'p8-label-first': ['label', 'lua', 'music', 'sfx', 'gfx', 'map', 'gff'],
                         'p8-no-map': ['lua', 'gfx', 'label', 'gff', 'sfx', 'music'],          # (sections PICO-8 leaves out when blank)
                         'p8-no-gfx': ['lua', 'gff', 'map', 'sfx', 'music'],
                         'p8-no-label': ['lua', 'gfx', 'gff', 'map', 'sfx', 'music']}[origin]
                if not set(order) <= set(secs) or (not origin.startswith('p8-no') and sorted(order) != sorted(secs)):
                    raise core.MachineryError('C17: .p8 sections %s' % sorted(secs))
                with open(fp, 'wb') as f:
                    f.write(head + b''.join(secs[k] for k in order))
            g = gfile.from_file(fp)
        # bring every region to the pattern in place (keeps the objects and their links; the .p8 text cannot hold one music bit)
        off = 0
        for n, size in SIZES:
            sec = getattr(g, n)
            if len(sec._data) != size:
                raise core.MachineryError('C17: loaded %s has %d bytes' % (n, len(sec._data)))
            sec._data[:] = mem[off:off + size]
            off += size
        _LOADED[key] = g
    return copy.deepcopy(_LOADED[key])


class Cart:
    def __init__(self, mul, add, origin='direct', tmp=None):
        if origin != 'direct':
            g = loaded_game(origin, mul, add, tmp)
            self.gfx, self.map, self.gff, self.music, self.sfx = g.gfx, g.map, g.gff, g.music, g.sfx
            self.game = g
            return
        from pico8.gfx import gfx
        from pico8.map import map as pmap
        from pico8.gff import gff
        from pico8.sfx import sfx
        from pico8.music import music
        mem = bytes(base(a, mul, add) for a in range(0x4300))
        self.gfx = gfx.Gfx.from_bytes(mem[0:0x2000], version=8)
        self.map = pmap.Map.from_bytes(mem[0x2000:0x3000], version=8, gfx=self.gfx)
        self.gff = gff.Gff.from_bytes(mem[0x3000:0x3100], version=8)
        self.music = music.Music.from_bytes(mem[0x3100:0x3200], version=8)
        self.sfx = sfx.Sfx.from_bytes(mem[0x3200:0x4300], version=8)

    def mem(self):
        return bytes(self.gfx._data) + bytes(self.map._data) + bytes(self.gff._data) + bytes(self.music._data) + bytes(self.sfx._data)

    def sizes(self):
        return [len(self.gfx._data), len(self.map._data), len(self.gff._data), len(self.music._data), len(self.sfx._data)]

    def do(self, op):
        n = op['n']
        N = lambda v: None if v < 0 else v      # noqa
        if n == 'set_sprite':
            return self.gfx.set_sprite(op['id'], [list(r) for r in op['rows']], tile_x_offset=op['xo'], tile_y_offset=op['yo'])
        if n == 'get_sprite':
            return [list(r) for r in self.gfx.get_sprite(op['id'], op['tw'], op['th'])]
        if n == 'set_cell':
            return self.map.set_cell(op['x'], op['y'], op['v'])
        if n == 'get_cell':
            return self.map.get_cell(op['x'], op['y'])
        if n == 'set_rect':
            return self.map.set_rect_tiles([list(r) for r in op['rect']], op['x'], op['y'])
        if n == 'get_rect':
            return [list(r) for r in self.map.get_rect_tiles(op['x'], op['y'], op['w'], op['h'])]
        if n == 'get_rect_pixels':
            return [list(r) for r in self.map.get_rect_pixels(op['x'], op['y'], op['w'], op['h'])]
        if n == 'set_flags':
            return self.gff.set_flags(op['id'], op['fl'])
        if n == 'clear_flags':
            return self.gff.clear_flags(op['id'], op['fl'])
        if n == 'reset_flags':
            return self.gff.reset_flags(op['id'], op['fl'])
        if n == 'get_flags':
            return self.gff.get_flags(op['id'], op['fl'])
        # "leave this field alone" is said the way callers say it: in every second call by omitting the argument (the
        # documented default), otherwise by passing None
        omit = (op.get('id', 0) + op.get('note', 0) + sum(v for v in op.values() if isinstance(v, int))) % 2 == 0

        def KW(**kw):
            return {k: N(v) for k, v in kw.items() if not (omit and v < 0)}
        if n == 'set_note':
            return self.sfx.set_note(op['id'], op['note'], **KW(pitch=op['p'], waveform=op['w'], volume=op['v'], effect=op['e']))
        if n == 'get_note':
            return list(self.sfx.get_note(op['id'], op['note']))
        if n == 'sfx_set_properties':
            return self.sfx.set_properties(op['id'], **KW(editor_mode=op['m'], note_duration=op['d'], loop_start=op['ls'], loop_end=op['le']))
        if n == 'sfx_get_properties':
            return list(self.sfx.get_properties(op['id']))
        if n == 'set_channel':
            return self.music.set_channel(op['id'], op['ch'], N(op['pat']))
        if n == 'get_channel':
            r = self.music.get_channel(op['id'], op['ch'])
            return -1 if r is None else r
        if n == 'music_set_properties':
            B = lambda v: None if v < 0 else bool(v)     # noqa
            return self.music.set_properties(op['id'], **{k: B(v) for k, v in (('begin', op['b']), ('end', op['e']), ('stop', op['s'])) if not (omit and v < 0)})
        if n == 'music_get_properties':
            return [int(bool(x)) for x in self.music.get_properties(op['id'])]
        raise core.MachineryError('unknown op %s' % n)


def edge_class(op):
    n = op['n']
    if n == 'set_sprite':
        x0 = (op['id'] % 16) * 8 + op['xo']
        y0 = (op['id'] // 16) * 8 + op['yo']
        w = max([len(r) for r in op['rows']] + [0])
        h = len(op['rows'])
        cx = 'x<128' if x0 + w < 128 else ('x=128' if x0 + w == 128 else 'x>128')
        cy = 'y<128' if y0 + h < 128 else ('y=128' if y0 + h == 128 else 'y>128')
        return cx + ',' + cy
    if n == 'set_rect':
        w = max(len(r) for r in op['rect'])
        h = len(op['rect'])
        return ('x-in' if op['x'] + w <= 128 else 'x-off') + ',' + ('y-in' if op['y'] + h <= 64 else 'y-off')
    if n in ('set_cell', 'get_cell'):
        return 'alias' if op['y'] >= 32 else 'map'
    return 'any'


def replay_histories(ctx, steps, mul, add):
    """steps: list of TLC records (sid, step, op, ret, ov). Returns number of agreeing steps."""
    by = {}
    for s in steps:
        by.setdefault(s['sid'], []).append(s)
    good = 0
    for sid, lst in sorted(by.items()):
        lst.sort(key=lambda s: s['step'])
        origin = ORIGINS[sid % len(ORIGINS)] if sid % 2 else 'direct'
        cart = Cart(mul, add, origin, ctx.tmp)
        hist = []
        for s in lst:
            op = s['op']
            hist.append(op)
            try:
                ret = cart.do(op)
                err = None
            except core.MachineryError:
                raise
            except Exception as e:  # noqa
                ret, err = None, '%s: %s' % (type(e).__name__, str(e)[:60])
            want_ret = s['ret']
            expect = bytearray(base(a, mul, add) for a in range(0x4300))
            for k, v in (s['ov'] or {}).items():
                expect[int(k)] = v
            sig = None
            if err is not None:
                sig, detail = 'raises/%s/%s' % (op['n'], edge_class(op)), err + ' [cart from %s]' % origin
            elif cart.sizes() != [sz for _, sz in SIZES]:
                sig, detail = 'region-size/%s/%s' % (op['n'], edge_class(op)), 'sizes %s' % cart.sizes()
            elif op['n'] == 'set_channel' and op['pat'] < 0:
                # silent: any stored value 64..127 is in contract; compare modulo that byte
                a = 0x3100 + op['id'] * 4 + op['ch']
                got = bytearray(cart.mem())
                if got[a] % 128 <= 63 or got[a] // 128 != expect[a] // 128:
                    sig, detail = 'memory/%s/%s' % (op['n'], edge_class(op)), 'silent channel byte %02x' % got[a]
                else:
                    # adopt the implementation's choice for the following steps
                    got2 = bytes(got[:a]) + bytes([expect[a]]) + bytes(got[a + 1:])
                    if got2 != bytes(expect):
                        sig, detail = 'memory/%s/%s' % (op['n'], edge_class(op)), 'other bytes changed'
                    else:
                        cart.music._data[op['id'] * 4 + op['ch']] = expect[a]
            elif cart.mem() != bytes(expect):
                got = cart.mem()
                diffs = [a for a in range(0x4300) if got[a] != expect[a]]
                sig, detail = 'memory/%s/%s' % (op['n'], edge_class(op)), '%d bytes differ from the model, first at 0x%04x (got %02x, model %02x) [cart from %s]' % (
                    len(diffs), diffs[0], got[diffs[0]], expect[diffs[0]], origin)
            elif want_ret != [] and ret != want_ret:
                sig, detail = 'return/%s/%s' % (op['n'], edge_class(op)), 'returned %r, model %r' % (str(ret)[:80], str(want_ret)[:80])
            if sig:
                ctx.violation(sig, '%s after %d steps: %s; op %s' % (sig, len(hist), detail, json.dumps(op)[:160]),
                              {'kind': 'history', 'ops': hist, 'mul': mul, 'add': add, 'origin': origin})
                break
            good += 1
    return good


MC_CFG = '''SPECIFICATION MCSpec
CONSTANTS BaseMul = 37
BaseAdd = 11
MaxSteps = 2
NSeq = 1
Mode = "random"
INVARIANT FrameLaw
INVARIANT AliasLaw
INVARIANT ReadAfterWrite
CHECK_DEADLOCK FALSE
'''


def run(ctx):
    rnd = random.Random(ctx.seed)
    ctx.rule = ('histories of accessor calls drawn by TLC from CartMem.tla (edge-focused argument domains: ids {0,15,16,127,239,240,255}, offsets {0,1,7,8,9}, '
                'ragged / transparent / oversize sprite rows, rectangles crossing each map edge, aliased rows 32-63) from several prior memory patterns; '
                'after every step the return value and all 17152 bytes are compared with the model; non-trivial = step agrees')
    ctx.assumptions = ['CartMem.tla states the documented semantics (clip at x,y >= 128 on the sheet, at x > 127 / y > 63 on the map; TRANSPARENT = 16; tile 0 renders empty)',
                       'a silent music channel may be stored as any value 64..127']
    ctx.model_check('CartMem', MC_CFG, name='MC_CartMem', workers=16)
    nseq, depth = (300, 10) if ctx.quick else (6000, 12)
    total = 0
    runs = [((37, 11), 'random', nseq, depth), ((101, 200), 'rmr', nseq * 4, 4)] if ctx.quick else \
           [((37, 11), 'random', nseq, depth), ((101, 200), 'random', nseq, depth), ((1, 0), 'rmr', nseq, 5), ((255, 255), 'rmr', nseq, 6)]
    for (mul, add), mode, ns, dp in runs:
        r = ctx.tlc('CartMem', CFG % (mul, add, dp, ns, mode), name='GenCartMem_%s_%d' % (mode, mul), extra=['-seed', str(ctx.seed + mul)], timeout=3000)
        steps = r.jsons
        if len(steps) != ns * dp:
            raise core.MachineryError('CartMem printed %d steps, expected %d' % (len(steps), ns * dp))
        good = replay_histories(ctx, steps, mul, add)
        total += len(steps)
        ctx.traces += good
        ctx.nontrivial += good
        if mul == 37:
            s = steps[len(steps) // 2]
            ctx.sample({'sid': s['sid'], 'step': s['step'], 'op': s['op'], 'ret': s['ret'] if len(str(s['ret'])) < 200 else '...', 'overrides': len(s['ov'] or {})})
    ctx.evaluations += total
    # canary: a wrong expectation must be noticed by the comparison
    if not ctx.violations:
        # the byte-for-byte comparison must notice a wrong expectation: one flipped override
        s = json.loads(json.dumps(steps[0]))
        s['ov'] = dict(s['ov'] or {}, **{'4660': (base(4660, mul, add) + 1) % 256})
        before = len(ctx.violations)
        replay_histories(ctx, [s], mul, add)
        rejected = len(ctx.violations) > before
        del ctx.violations[before:]
        ctx.canary(rejected, 'expected memory with one wrong byte')


def replay(ctx, path):
    rec = json.load(open(path))['replay']
    cart = Cart(rec['mul'], rec['add'], rec.get('origin', 'direct'), ctx.tmp)
    for op in rec['ops']:
        try:
            cart.do(op)
        except Exception as e:  # noqa
            ctx.violation('replay/raises', 'still raises %s' % type(e).__name__, rec)
            return
