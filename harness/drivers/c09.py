"""C09 - luafmt changes only whitespace, works on every valid program, never drops code.

F1  every generated (valid by construction) program x layouts x widths is formatted without error;
F2-F4 TraceFmt (focus C09): tokens / comments identical and in order, line scopes kept, stats equal;
F5  no silent loss: valid programs with one token deleted / inserted and newer-syntax samples are
    given to LuaFormatterWriter, LuaASTEchoWriter and LuaMinifyWriter; whenever the call returns,
    TraceTokens must accept the output as a token-for-token copy of the whole input.
"""
import json
import os
import random
import re

from .. import core, progs, minify, fmt, lexref
from .c07 import fixture_sources, layout_mutations
from . import c08

FOCUS = 'C09'


PRIMERS = [b'x=1 ', b'x=1\t', b'x=1  ', b'-- c ', b'x=1 -- c', b'if (a) b=1 ', b'x=1\n\n\n', b'x = {\n 1,\n}  ', b'do\n  x=1\nend ']
_PRIMED = set()


def prime(width):
    """Calls of the formatter are not independent if it keeps state between them: before the first
    judged program of a process, a few valid programs ending in blanks / comments without a final
    newline are formatted (their own outputs are judged like any other program elsewhere)."""
    if width not in _PRIMED:
        _PRIMED.add(width)
        for s in PRIMERS:
            fmt.run_writer(s, 'fmt', width)


def _mk(item):
    name, src, deriv, width, focus, want_variants, seed = item[:7]
    prime(width)
    out, err, info = fmt.run_writer(src, 'fmt', width)
    if out is None:
        return ('load' if err.startswith('load:') else 'raises', err, None)
    tr = {'src': list(src), 'out': list(out), 'width': width, 'deriv': deriv, 'statsIn': minify.stats_of(src),
          'statsOut': minify.stats_of(out), 'again': [], 'variants': [], 'focus': focus}
    if focus == 'C10':
        again, err2, _ = fmt.run_writer(out, 'fmt', width)
        tr['again'] = list(again) if again is not None else [0]
        if want_variants:
            rnd = random.Random(seed)
            for v in fmt.reindent_variants(src, rnd):
                o2, e2, _ = fmt.run_writer(v, 'fmt', width)
                tr['variants'].append(list(o2) if o2 is not None else [0])
    return ('ok', tr, out)


def ctx_of_deriv(deriv):
    st = [p for p in deriv if p in c08.STAT_PRODS or p in ('PParen', 'Table', 'FTSep', 'ArgsStr', 'ArgsTable', 'SElse', 'SElseEmpty')]
    seen = []
    for p in st:
        if p not in seen:
            seen.append(p)
    return '+'.join(sorted(seen))[:70]


def judge(ctx, cases, widths, focus=FOCUS, variants=False):
    """cases: (name, src, deriv, valid_by_construction)"""
    items = []
    for k, (name, src, deriv, valid) in enumerate(cases):
        for w in widths:
            items.append((name, src, deriv, w, focus, variants, ctx.seed + k, valid))
    traces, meta = [], []
    res = core.parmap(_mk, items)
    raises = {}
    for it, (st, a, out) in zip(items, res):
        name, src, deriv, w = it[:4]
        if st == 'load' and focus == 'C09' and it[7] and w == widths[0]:
            # a program that is valid by construction does not even load: `p8tool luafmt` fails on a valid program
            sig = 'fmt-load-fails/%s' % a.split(':')[1].strip()
            raises.setdefault(sig, []).append((name, src, w, a))
        elif st == 'load':
            ctx.out_of_domain += 1
        elif st == 'raises':
            if focus == 'C09':
                exc = a.split(':')[1].strip()
                where = a.rsplit('@', 1)[1] if '@' in a else ''
                sig = 'fmt-raises/%s@%s/%s' % (exc, where, 'paren-head' if 'PParen' in deriv else 'plain')
                raises.setdefault(sig, []).append((name, src, w, a))
            else:
                ctx.out_of_domain += 1      # C09's clause F1
        else:
            traces.append(a)
            meta.append((name, src, out, w))
    for sig, lst in raises.items():
        for name, src, w, a in lst:
            ctx.violation(sig, 'luafmt raised on a valid program (%s, width %d): %s; e.g. %r' % (name, w, a, src[:60]),
                          {'kind': 'fmt', 'src': list(src), 'width': w})
    if not traces:
        return []
    verdicts = ctx.validate('TraceFmt', traces)
    for (name, src, out, w), v in zip(meta, verdicts):
        if v[0] == 'ok':
            ctx.nontrivial += 1
        elif v[0].startswith('ood'):
            ctx.out_of_domain += 1
        else:
            i, o, depth = v[1], v[2], v[3]
            sig = '%s/%s' % (v[0], lexref.shape(out[max(o - 3, 0):o + 6]))
            ctx.violation(sig, 'luafmt output rejected (%s) for %s width %d at input offset %d / output offset %d (depth %d): %r -> %r' % (
                v[0], name, w, i, o, depth, src[max(i - 10, 0):i + 12], out[max(o - 10, 0):o + 12]),
                {'kind': 'fmt', 'src': list(src), 'width': w})
    return list(zip(meta, verdicts))


def gen_cases(ctx, sets, layouts):
    out = []
    for label, behs in sets:
        for k, b in enumerate(behs):
            if not progs.real_tokens(b):
                continue
            lay = layouts[k % len(layouts)]
            src = progs.render(b, lay, random.Random(ctx.seed * 7919 + k))
            if src is None:
                continue
            out.append(('%s#%d/%s' % (label, k, lay), src, b['deriv'], True))
            if any(x['t'] in ('unop', 'binop') for x in b['toks']) and k % 2 == 0:
                rs = ('minus', 'dots', 'tilde', 'slash')[(k // 2) % 4]
                lay2 = 'spaced' if lay == 'tight' else lay
                src2 = progs.render(b, lay2, random.Random(ctx.seed * 7919 + k), respell=rs)
                if src2 is not None and src2 != src:
                    out.append(('%s#%d/%s/%s' % (label, k, lay2, rs), src2, b['deriv'], True))
    return out


def gen_sets(ctx):
    if ctx.quick:
        return [('all<=5', progs.generate(ctx, 'all', 5)),
                ('expr<=6', progs.generate(ctx, 'expr', 6)),
                ('blocks<=9', progs.generate(ctx, 'blocks', 9)),
                ('shortif<=15', progs.generate(ctx, 'shortif', 15)),
                ('sim<=40', progs.generate(ctx, 'all', 40, max_depth=4, simulate=300)),
                progs.wide_set(ctx, 40)]
    return [progs.wide_set(ctx, 400),
            ('all<=6', progs.generate(ctx, 'all', 6)),
            ('expr<=8', progs.generate(ctx, 'expr', 8)),
            ('skeleton<=8', progs.generate(ctx, 'skeleton', 8)),
            ('blocks<=11', progs.generate(ctx, 'blocks', 11)),
            ('shortif<=15', progs.generate(ctx, 'shortif', 15)),
            ('sim<=60', progs.generate(ctx, 'all', 60, max_depth=5, simulate=3000))]


def fixture_cases(ctx, rnd):
    from .. import ast2deriv
    out = []
    for name, src in fixture_sources():
        if name == 'lexer_valid.lua':
            continue
        for k, s in enumerate([src] + layout_mutations(src, rnd, 2 if ctx.quick else 6)):
            try:
                tr = ast2deriv.trace(s)
            except Exception:
                ctx.out_of_domain += 1
                continue
            if tr['consumed'] != len(tr['toks']):
                ctx.out_of_domain += 1
                continue
            out.append(('%s~%d' % (name, k), s, tr['deriv'], False))
    return out


DEGENERATE = [b'', b'\n', b'-- only a comment\n', b'   \n\t\n', b'x=1', b'x=1\r\n', b'-- c', b'//c\n\n\n', b'x=1\n\n\n\n', b'x=1 ', b'x=1  ', b'x=1\t',
              b'a = 1\n-- the end', b'x=1\n\n-- e1\n//e2', b'x=1 --[[c]]', b'x=1\n--[[m\nn]]']
NEWER = [b'a |= 1\n', b'a \\= 2\n', b'?x,y\n', b'a=b=c\n', b'x = 1 y == 2\n', b'if (a) b=1 else\nc=2\n', b'while (a) b=1\nc=2\n',
         b'f() ) g()\n', b'x = {1,2,,}\n', b'local a <const> = 1\n', b'a ^^= 1\n', b'a >>>= 1\n', b'x=1 end y=2\n']


SHORTIF_PROBES = [b'if (a) print("x\\ny") b=1\nc=2\n', b'if (a) return "\\n"\n', b"if (a) s='\\\\' t=2\nu=3\n", b'if (a) f[[x]] g=1\nh=2\n',
                  b'if (a) f() --[[k]] g=1\nh=2\n', b'if (a) b=1 else c="\\n"\nd=4\n', b'if (a) b="\\"" c=[=[]]]=] d=1\ne=2\n',
                  b'function f()\n if (a) return "\\n", 1\nend\n', b'if (a) b=1 --c\nd="\\n"\n', b'if (a) b="\\065\\x41\\z  c" d=2\ne=3\n',
                  b's=[[\n\nabc]] t=[==[\nx]==] u=[[\n]]\n', b'f[[\n\n]] g[=[\n\n\n]=]\n']


def probe_cases():
    """short-if lines that carry every kind of string literal and comment (valid programs: a load failure is a finding)"""
    from .. import ast2deriv
    out = []
    for k, src in enumerate(SHORTIF_PROBES):
        try:
            d = ast2deriv.trace(src)['deriv']
        except Exception:
            d = ['Chunk', 'StEnd']
        out.append(('shortif-probe%d' % k, src, d, True))
    return out


def mutated_inputs(ctx, rnd, cases, n):
    """valid programs with one significant token deleted or inserted (lexable, mostly unparsable)"""
    out = []
    extra = [b'end', b')', b'=', b'then', b'1', b'x', b',', b'(', b'..', b'do']
    for k in range(n):
        name, src, deriv, _ = cases[rnd.randrange(len(cases))]
        toks, err = lexref.lex_impl([src])
        if toks is None:
            continue
        sig = [j for j, t in enumerate(toks) if lexref.kind_of(t) in lexref.SIG]
        if not sig:
            continue
        j = sig[rnd.randrange(len(sig))]
        parts = [t.code for t in toks]
        if k % 2 == 0:
            parts[j] = b' '
        else:
            parts[j] = parts[j] + b' ' + extra[rnd.randrange(len(extra))] + b' '
        out.append(('mut%d:%s' % (k, name), b''.join(parts)))
    return out


def _f5(item):
    name, src, writer = item
    out, err, info = fmt.run_writer(src, writer, 2)
    return (out, err, info)


def no_silent_loss(ctx, inputs):
    items = [(name, src, w) for name, src in inputs for w in ('fmt', 'astecho', 'astmin')]
    res = core.parmap(_f5, items)
    traces, meta = [], []
    refused = 0
    for (name, src, w), (out, err, info) in zip(items, res):
        if out is None:
            refused += 1
            continue
        traces.append({'src': list(src), 'out': list(out), 'renameOK': w == 'astmin'})
        meta.append((name, src, w, out, info))
    ctx.notes['f5_inputs'] = len(items)
    ctx.notes['f5_refused_with_error'] = refused
    cans = [{'src': list(b'a=b c=d\n'), 'out': list(b'a=b\n'), 'renameOK': False},
            {'src': list(b'a=b c=d\n'), 'out': list(b'a=b c=e\n'), 'renameOK': False}]
    v = ctx.validate('TraceTokens', traces + cans)
    ctx.traces -= 2
    ctx.canary(v[-2][0] == 'code-dropped', 'statement dropped')
    ctx.canary(v[-1][0] == 'token-changed', 'identifier changed')
    for (name, src, w, out, info), vv in zip(meta, v):
        partial = info.get('consumed', 0) < info.get('nsig', 0)
        if vv[0] == 'ok':
            ctx.nontrivial += 1
        elif vv[0] == 'ood' or not partial:
            # fully parsed inputs are judged by TraceFmt when their tree is a derivation (F2), not here
            ctx.out_of_domain += 1
        else:
            sig = 'silent-loss/%s/%s' % (w, vv[0])
            ctx.violation(sig, '%s returned a shortened program (%s) for %s although the parser consumed only %s of %s tokens; %r -> %r' % (
                w, vv[0], name, info.get('consumed'), info.get('nsig'), src[:50], out[:50]),
                {'kind': 'f5', 'src': list(src), 'writer': w})


def run(ctx):
    rnd = random.Random(ctx.seed)
    ctx.rule = ('GenProg programs (valid by construction) x layouts {spaced, lines, comments, semis, tight} x indent widths; fixtures; degenerate programs; '
                'for F5: valid programs with one token deleted/inserted and newer-syntax samples through three tree-driven writers. '
                'Non-trivial = the acceptor reached the end of input and output (verdict ok).')
    ctx.assumptions = ['LuaSyntax / P8Lex are the dialect; derivations come from the generator (from the C08-validated tree for fixtures)',
                       'comments are compared modulo whitespace inside them']
    widths = (0, 2, 4) if ctx.quick else tuple(range(9))
    cases = gen_cases(ctx, gen_sets(ctx), ('spaced', 'lines', 'comments', 'semis', 'tight'))
    if ctx.quick:
        res = judge(ctx, cases, (2,))
        judge(ctx, cases[::5], (0, 4))
    else:
        res = judge(ctx, cases, (2,))
        judge(ctx, cases[::3], (0, 1, 3, 4, 5, 6, 7, 8))
    fx = fixture_cases(ctx, rnd)
    judge(ctx, fx, widths)
    degen = [('degenerate%d' % k, s, ['Chunk', 'StEnd'] if not s.strip() or s.strip().startswith((b'--', b'//')) else ['Chunk', 'StStat', 'Assign', 'VL1', 'VarName', 'EL1', 'Exp', 'UnNone', 'TNum', 'TailNone', 'StEnd'], True)
             for k, s in enumerate(DEGENERATE)]
    nofinal = [(n + '/nofinalnl', s.rstrip(b'\n'), d, v) for (n, s, d, v) in cases[::50]]
    crlf = [(n + '/crlf', s.replace(b'\n', b'\r\n'), d, v) for (n, s, d, v) in cases[::50] if b'--[[m' not in s]
    fxcrlf = [(n + '/crlf', s.replace(b'\r\n', b'\n').replace(b'\n', b'\r\n'), d, v) for (n, s, d, v) in fx if n.endswith('~0')]
    # CR-only line ends (old Mac editors): a line end for the reference and for picotool alike; only comment-free sources
    # (where a comment ends when a lone CR follows is the one point on which the dialect is not pinned down)
    cronly = [(n + '/cr', s.replace(b'\n', b'\r'), d, v) for (n, s, d, v) in cases[::25] if b'--' not in s and b'//' not in s]
    judge(ctx, degen + nofinal + crlf + fxcrlf + cronly + probe_cases(), (2,))
    muts = mutated_inputs(ctx, rnd, cases + fx, 400 if ctx.quick else 4000)
    no_silent_loss(ctx, muts + [('newer%d' % k, s) for k, s in enumerate(NEWER)] + [(n, s) for n, s, _, _ in cases[::40]])
    ctx.evaluations += len(cases) + len(muts)
    if res:
        (name, src, out, w), v = res[len(res) // 2]
        ctx.sample({'src': src.decode('latin1'), 'out': out.decode('latin1'), 'width': w, 'verdict': v[0]})
    cli_path(ctx)
    from .. import system
    system.run(ctx, 'C09', nseq=(40 if ctx.quick else 300))


def cli_fmt_outputs(ctx, d, p, png, src, run):
    """runs `p8tool luafmt [--indentwidth=W]` on the fixture cart as .p8 and .p8.png; yields (W, cart name, source, output code, derivation)"""
    from pico8.game import file as gfile
    from .. import ast2deriv, cartio
    deriv = ast2deriv.trace(src)['deriv']
    combos = [(0, p), (3, p), (8, p), (None, p), (0, png), (8, png)] if ctx.quick else [(w_, p) for w_ in list(range(9)) + [None]] + [(0, png), (5, png), (8, png)]
    # a cart file that ends right after its last code line (no final newline, no further section)
    eof = os.path.join(d, 'eof.p8')
    with open(eof, 'wb') as f:
        f.write(b'pico-8 cartridge // http://www.pico-8.com\nversion 8\n__lua__\n' + src.rstrip(b'\n'))
    combos.append((2, eof))
    for w, inp in combos:
        outp = inp.replace('.p8', '_fmt.p8', 1)
        if os.path.exists(outp):
            os.unlink(outp)
        rc = run(['luafmt'] + (['--indentwidth=%d' % w] if w is not None else []) + [inp])
        if rc not in (0, None) or not os.path.exists(outp):
            ctx.violation('cli-fails/luafmt/width-%s' % w, 'p8tool luafmt --indentwidth %s failed on the every-node fixture as %s (rc=%s)' % (w, os.path.basename(inp), rc), {'kind': 'cli'})
            continue
        yield (w, os.path.basename(inp), src.rstrip(b'\n') if inp.endswith('eof.p8') else src, cartio.game_code(gfile.from_file(outp)), deriv)


def cli_setup(ctx):
    import tempfile
    from pico8 import tool
    from pico8.game import file as gfile
    src = open(os.path.join(core.VERIF, 'fixtures', 'lua', 'every_node.lua'), 'rb').read()
    d = tempfile.mkdtemp(prefix='c09_', dir=ctx.tmp)
    p = os.path.join(d, 'in.p8')
    with open(p, 'wb') as f:
        f.write(b'pico-8 cartridge // http://www.pico-8.com\nversion 8\n__lua__\n' + src + b'__gfx__\n')
    png = os.path.join(d, 'inpng.p8.png')
    gfile.to_file(gfile.from_file(p), png)

    def run(argv):
        try:
            return tool.main(['--quiet'] + argv)
        except SystemExit as e:
            return e.code
        except Exception as e:  # noqa
            return 'exception %s' % type(e).__name__
    return d, p, png, src, run


def cli_path(ctx):
    """`p8tool luafmt` as the user runs it: every --indentwidth from 0 to 8 (the boundary values through the option parser),
    .p8 and .p8.png carts; and carts picotool cannot parse to the end: the command must fail and write nothing shortened"""
    from pico8.game import file as gfile
    from .. import cartio
    d, p, png, src, run = cli_setup(ctx)
    traces, meta = [], []
    for w, name, want, out, deriv in cli_fmt_outputs(ctx, d, p, png, src, run):
        traces.append({'src': list(want), 'out': list(out), 'width': 2 if w is None else w, 'deriv': deriv, 'statsIn': minify.stats_of(want),
                       'statsOut': minify.stats_of(out), 'again': [], 'variants': [], 'focus': 'C09'})
        meta.append((w, name))
    if traces:
        v = ctx.validate('TraceFmt', traces)
        for (w, name), vv in zip(meta, v):
            ctx.evaluations += 1
            if vv[0] != 'ok':
                ctx.violation('cli-luafmt/%s/width-%s' % (vv[0], w), 'p8tool luafmt --indentwidth %s output for %s rejected (%s)' % (w, name, vv[0]), {'kind': 'cli'})
            else:
                ctx.nontrivial += 1
    # not parsable to the end: the command must not succeed with a shortened program
    for k, bad in enumerate(NEWER[:8]):
        for ext in ('.p8', '.p8.png'):
            ip = os.path.join(d, 'bad%d%s' % (k, ext))
            g = cartio.make_game(cartio.memory((0, 0), {}), b'x=1\n', None, 16)
            try:
                g.lua._lexer._tokens = []
                from pico8.lua import lua as plua
                g.lua = plua.Lua.from_lines([b'-- t\n' + bad], 16)
            except Exception:
                continue        # picotool does not even load it
            toks = [t for t in g.lua.tokens if type(t).__name__ in minify.SIGK]
            if g.lua.root.end_pos >= len(g.lua.tokens) - 1 and sum(1 for t in g.lua.tokens[g.lua.root.end_pos:] if type(t).__name__ in minify.SIGK) == 0:
                continue        # parsed completely: a valid program for picotool
            try:
                if ext == '.p8':
                    with open(ip, 'wb') as f:
                        f.write(b'pico-8 cartridge // http://www.pico-8.com\nversion 16\n__lua__\n-- t\n' + bad + b'__gfx__\n')
                else:
                    gfile.to_file(g, ip)        # (default writer: the echo needs no parse)
            except Exception:
                continue
            outp = ip.replace('.p8', '_fmt.p8', 1)
            rc = run(['luafmt', ip])
            ctx.evaluations += 1
            if rc in (0, None) and os.path.exists(outp):
                out = cartio.game_code(gfile.from_file(outp))
                vv = ctx.validate('TraceTokens', [{'src': list(b'-- t\n' + bad), 'out': list(out), 'renameOK': False}])
                if vv[0][0] not in ('ok', 'ood'):
                    ctx.violation('cli-silent-loss/%s/%s' % (ext, vv[0][0]), 'p8tool luafmt succeeded on a %s cart whose code picotool cannot parse to the end and wrote a shortened program (%s): %r -> %r' % (
                        ext, vv[0][0], bad[:40], out[:40]), {'kind': 'cli-f5', 'src': list(bad)})
                else:
                    ctx.nontrivial += 1
            else:
                ctx.nontrivial += 1


def replay(ctx, path):
    rec = json.load(open(path))['replay']
    src = bytes(rec['src'])
    if rec.get('kind') == 'f5':
        no_silent_loss(ctx, [('replay', src)])
    else:
        from .. import ast2deriv
        try:
            d = ast2deriv.trace(src)['deriv']
        except Exception:
            d = ['Chunk', 'StEnd']
        judge(ctx, [('replay', src, d, True)], (rec.get('width', 2),))
