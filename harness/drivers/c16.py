"""C16 - on-disk encodings match the PICO-8 cart formats, not merely each other.

CartFormat.tla states the encodings as functions of memory bytes (written from the format
description). (1) TLC prints the prescribed text / channel bits for all 65536 sfx note words,
all 256 byte values of a gfx byte, all 256 bytes through the PNG channel split and the music
flag/channel combinations; the real encoders AND decoders are run on each in both directions.
(2) Whole carts (sparse edge patterns, dense random) written by picotool as .p8 are judged row
by row by TraceP8.tla (focus C16); .p8.png writes are decoded with an independent PNG decoder and
sampled pixels judged by TracePng.tla. (3) The PICO-8-written reference pairs (same cart as .p8
and .p8.png): picotool must load both to identical regions, and each PICO-8-written file must be
what the format prescribes for the regions loaded from the OTHER file.
"""
import io
import json
import os
import random

from .. import core, cartio, refpng

GEN = '''SPECIFICATION Spec
CONSTRAINT Emit
CHECK_DEADLOCK FALSE
'''
CARTS = os.path.join(core.VERIF, 'fixtures', 'carts')
PAIRS = ('test_cart', 'test_cart_memdump', 'test_gol', 'empty')


def unit_level(ctx):
    from pico8.sfx import sfx
    from pico8.gfx import gfx
    from pico8.music import music
    from pico8.game.formatter import p8png
    r = ctx.tlc('CartFormat', GEN, name='GenCartFormat')
    recs = r.jsons
    notes = [x for x in recs if x['kind'] == 'note']
    ctx.evaluations += len(recs)
    bad = {}

    def viol(sig, what, obj):
        ctx.violation(sig, what, obj)
    ok = 0
    # ---- sfx notes: fill one Sfx object with 2048 notes at a time
    for base in range(0, len(notes), 2048):
        part = notes[base:base + 2048]
        s = sfx.Sfx.empty(version=8)
        for k, n in enumerate(part):
            s._data[(k // 32) * 68 + (k % 32) * 2] = n['x']
            s._data[(k // 32) * 68 + (k % 32) * 2 + 1] = n['y']
        lines = list(s.to_lines())
        s2 = sfx.Sfx.from_lines(lines, version=8)
        for k, n in enumerate(part):
            row = lines[k // 32]
            got = row[8 + (k % 32) * 5: 8 + (k % 32) * 5 + 5]
            want = bytes(n['exp'])
            a = (k // 32) * 68 + (k % 32) * 2
            if got != want:
                viol('unit-note-write', 'sfx note word lsb=%02x msb=%02x written as %r, format prescribes %r' % (n['x'], n['y'], got, want), {'kind': 'note', 'x': n['x'], 'y': n['y']})
            elif (s2._data[a], s2._data[a + 1]) != (n['x'], n['y']):
                viol('unit-note-read', 'digits %r read back as %02x %02x, memory was %02x %02x' % (want, s2._data[a], s2._data[a + 1], n['x'], n['y']), {'kind': 'note', 'x': n['x'], 'y': n['y']})
            else:
                ok += 1
    # ---- gfx bytes at several columns
    for x in [x for x in recs if x['kind'] == 'gfx']:
        for col in (0, 1, 31, 32, 62, 63):
            g = gfx.Gfx.empty(version=8)
            g._data[5 * 64 + col] = x['x']
            lines = list(g.to_lines())
            got = lines[5][col * 2: col * 2 + 2]
            g2 = gfx.Gfx.from_lines(lines, version=8)
            if got != bytes(x['exp']):
                viol('unit-gfx-write', 'gfx byte %02x at column %d written as %r, format prescribes %r' % (x['x'], col, got, bytes(x['exp'])), {'kind': 'gfx', 'x': x['x']})
            elif g2._data[5 * 64 + col] != x['x'] or len(g2._data) != 0x2000:
                viol('unit-gfx-read', 'gfx digits %r read back as %02x' % (got, g2._data[5 * 64 + col]), {'kind': 'gfx', 'x': x['x']})
            else:
                ok += 1
    # ---- png channel split (both directions), label pixel upper bits arbitrary
    rnd = random.Random(ctx.seed)
    for x in [x for x in recs if x['kind'] == 'png']:
        lab = [rnd.randrange(256) for _ in range(4)]
        rows = p8png.get_pngdata_from_picodata(bytes([x['x']]), [bytearray(lab)], {'planes': 4})
        px = list(rows[0])
        r_, g_, b_, a_ = x['exp']
        if [px[0] & 3, px[1] & 3, px[2] & 3, px[3] & 3] != [r_, g_, b_, a_] or [p & ~3 for p in px] != [l & ~3 for l in lab]:
            viol('unit-png-write', 'byte %02x packed as RGBA low bits %s, format prescribes %s' % (x['x'], [p & 3 for p in px], x['exp']), {'kind': 'png', 'x': x['x']})
            continue
        back = p8png.get_picodata_from_pngdata(1, 1, [bytes([lab[0] & ~3 | r_, lab[1] & ~3 | g_, lab[2] & ~3 | b_, lab[3] & ~3 | a_])], {'planes': 4})
        if back[0] != x['x']:
            viol('unit-png-read', 'RGBA low bits %s unpacked as %02x, format says %02x' % (x['exp'], back[0], x['x']), {'kind': 'png', 'x': x['x']})
        else:
            ok += 1
    # ---- music rows
    for x in [x for x in recs if x['kind'] == 'music']:
        f, c = x['x'], x['y']
        b = [(f % 2) * 128 + c, ((f // 2) % 2) * 128 + c, (f // 4) * 128 + c, c]
        m = music.Music.empty(version=8)
        m._data[8:12] = bytes(b)
        lines = list(m.to_lines())
        want = bytes(x['exp'])
        m2 = music.Music.from_lines(lines, version=8)
        if lines[2].rstrip(b'\n') != want:
            viol('unit-music-write', 'music bytes %s written as %r, format prescribes %r' % (b, lines[2], want), {'kind': 'music', 'x': f, 'y': c})
        elif list(m2._data[8:12]) != b:
            viol('unit-music-read', 'music row %r read back as %s, memory was %s' % (want, list(m2._data[8:12]), b), {'kind': 'music', 'x': f, 'y': c})
        else:
            ok += 1
    ctx.traces += ok
    ctx.nontrivial += ok
    ctx.notes['unit_encodings_checked_both_directions'] = ok
    ctx.sample({'unit': 'note', 'lsb': notes[777]['x'], 'msb': notes[777]['y'], 'digits': bytes(notes[777]['exp']).decode()})


def png_pixels(pngbytes, label_png, idxs):
    """RGBA of pixels idxs in the written PNG and in the label source, via the independent decoder."""
    w, h, ch, rows = refpng.decode_png(pngbytes)
    lw, lh, lch, lrows = refpng.decode_png(label_png)
    out = []
    for i in idxs:
        y, x = divmod(i, w)
        p = rows[y][x * ch:x * ch + 4]
        lp = lrows[y][x * lch:x * lch + 4] if lch == 4 else bytes(lrows[y][x * lch:x * lch + 3]) + b'\xff'
        out.append({'i': i, 'r': p[0], 'g': p[1], 'b': p[2], 'a': p[3], 'lr': lp[0], 'lg': lp[1], 'lb': lp[2], 'la': lp[3]})
    return out, (w, h, ch)


def sample_idxs(rnd, n=400):
    edges = []
    for b in (0, 0x2000, 0x3000, 0x3100, 0x3200, 0x4300, 0x8000):
        edges += [b + d for d in (-2, -1, 0, 1, 2) if 0 <= b + d < 160 * 205]
    return sorted(set(edges + [160 * 205 - 1] + [rnd.randrange(0x8001) for _ in range(n)] + [rnd.randrange(0x8001, 160 * 205) for _ in range(20)]))


def whole_carts(ctx, rnd):
    from pico8.game.formatter import p8png
    traces, meta = [], []
    n_sparse, n_dense = (14, 2) if ctx.quick else (80, 12)
    for k in range(n_sparse + n_dense):
        pat = (rnd.randrange(256), rnd.randrange(256)) if k else (0, 0)
        if k < n_sparse:
            ov = cartio.sparse_overrides(rnd, 40)
            if k % 2:
                ov.update(cartio.repeated_row_overrides(rnd, pat))
            else:
                ov.update(cartio.default_row_overrides(rnd))
        else:
            ov = {a: rnd.randrange(256) for a in range(0x4300)}
        lpat = (rnd.randrange(256), rnd.randrange(256)) if k % 2 else None
        code = cartio.LUA_SAMPLES[k % len(cartio.LUA_SAMPLES)]
        try:
            rec, info = cartio.p8_trace(pat, ov, lpat, {5: 255} if lpat else {}, code, (0, 255, 1, 41)[k] if k < 4 else 8 + (k % 30), 'C16')
        except Exception as e:  # noqa
            ctx.violation('p8-write-raises/%s' % type(e).__name__, 'writing a cart as .p8 raised %s' % e, {'kind': 'cart', 'pat': pat})
            continue
        traces.append(rec)
        meta.append(('cart%d' % k, pat))
    # the same format in the shape PICO-8 itself saves: trailing rows holding only default data are left out (the tail of
    # each of gfx / gff / map / music is set to its default here, to a different depth per cart)
    DEFAULTS = ((0x0000, 64, 128, (0,) * 64), (0x2000, 128, 32, (0,) * 128), (0x3000, 128, 2, (0,) * 128), (0x3100, 4, 64, (0x41, 0x42, 0x43, 0x44)))
    for k in range(6 if ctx.quick else 40):
        pat = (rnd.randrange(256), rnd.randrange(256))
        ov = cartio.sparse_overrides(rnd, 20)
        for start, rowlen, nrows, dflt in DEFAULTS:
            keep = rnd.choice((0, 1, nrows // 2, nrows - 1, rnd.randrange(nrows + 1)))
            for r_ in range(keep, nrows):
                for i in range(rowlen):
                    ov[start + r_ * rowlen + i] = dflt[i]
        try:
            rec, info = cartio.p8_truncated_trace(pat, ov, 8 + k)
        except Exception as e:  # noqa
            ctx.violation('p8-write-raises/%s' % type(e).__name__, 'writing a cart as .p8 raised %s' % e, {'kind': 'cart', 'pat': pat})
            continue
        traces.append(rec)
        meta.append(('cart with the default rows at the end of its sections left out as PICO-8 does (rows present: %s)' % info['rows'], pat))
    can = json.loads(json.dumps(traces[0]))
    row = can['rows']['sfx'][40]
    can['rows']['sfx'][40] = row[:20] + ('0' if row[20] != '0' else '1') + row[21:]
    can2 = json.loads(json.dumps(traces[0]))
    can2['rows']['gfx'][0] = can2['rows']['gfx'][0][1] + can2['rows']['gfx'][0][0] + can2['rows']['gfx'][0][2:] if can2['rows']['gfx'][0][0] != can2['rows']['gfx'][0][1] else 'f' + can2['rows']['gfx'][0][1:]
    tf = os.path.join(ctx.tmp, 'table.json')
    from .c15 import table
    json.dump(table(), open(tf, 'w'))
    v = ctx.validate('TraceP8', traces + [can, can2], env={'TABLE_FILE': tf}, max_bytes=3000000)
    ctx.traces -= 2
    if v[0][0] == 'ok':
        ctx.canary(v[-2][0] == 'row-sfx', 'one sfx digit corrupted')
        ctx.canary(v[-1][0] == 'row-gfx', 'gfx nibbles swapped')
    for (name, pat), vv in zip(meta, v):
        if vv[0] == 'ok':
            ctx.nontrivial += 1
        else:
            ctx.violation('p8-%s' % vv[0], '.p8 file written for %s is not what the format prescribes (%s, section %d row %d)' % (name, vv[0], vv[1], vv[2]),
                          {'kind': 'cart', 'pat': list(pat)})
    ctx.evaluations += len(traces)
    # ---- .p8.png pixels
    ptraces, pmeta = [], []
    label_src = open(p8png.EMPTY_LABEL_FNAME, 'rb').read()
    for k in range(3 if ctx.quick else 12):
        pat = (rnd.randrange(1, 256), rnd.randrange(256))
        ov = cartio.sparse_overrides(rnd, 60)
        mem = cartio.memory(pat, ov)
        code = b'print("hello hello hello hello")\nprint("hello hello hello hello")\n' * 3
        ver = (0, 255, 33)[k] if k < 3 else 8 + k      # (the version byte: also 0 and the largest value)
        g = cartio.make_game(mem, code, None, ver)
        buf = io.BytesIO()
        try:
            p8png.P8PNGFormatter.to_file(g, buf)
            px, dims = png_pixels(buf.getvalue(), label_src, [i for i in sample_idxs(rnd) if i < 0x4300 or i >= 0x8000])
        except Exception as e:  # noqa
            ctx.violation('png-write-raises/%s' % type(e).__name__, 'writing / decoding a .p8.png raised %s' % str(e)[:80], {'kind': 'png', 'pat': list(pat)})
            continue
        ptraces.append({'mem': list(mem), 'area': [], 'code': [], 'version': ver, 'pixels': px, 'focus': 'C16', 'outcome': 'ok', 'rawLen': 0, 'compLen': 0,
                        'rb': {'checked': False, 'diff': [], 'code': [], 'version': 0}})
        pmeta.append('png%d' % k)
    if ptraces:
        c = json.loads(json.dumps(ptraces[0]))
        c['pixels'][5]['r'] ^= 1
        c2 = json.loads(json.dumps(ptraces[0]))
        c2['pixels'][7]['g'] ^= 64
        v = ctx.validate('TracePng', ptraces + [c, c2], max_bytes=3000000)
        ctx.traces -= 2
        if v[0][0] == 'ok':
            ctx.canary(v[-2][0] == 'pixel-bits', 'data bit flipped')
            ctx.canary(v[-1][0] == 'label-bits', 'upper bit clobbered')
        for name, vv in zip(pmeta, v):
            if vv[0] == 'ok':
                ctx.nontrivial += 1
            else:
                ctx.violation('png-%s' % vv[0], '.p8.png pixels for %s are not what the format prescribes (%s at sample %d)' % (name, vv[0], vv[2]), {'kind': 'png'})


def reference_pairs(ctx, rnd):
    """PICO-8-written files: the same cart as .p8 and as .p8.png."""
    from pico8.game import file as gfile
    traces, meta = [], []
    ptraces, pmeta = [], []
    for name in PAIRS:
        p8f = os.path.join(CARTS, name + '.p8')
        pngf = os.path.join(CARTS, name + '.p8.png')
        try:
            g1 = gfile.from_file(p8f)
            g2 = gfile.from_file(pngf)
        except Exception as e:  # noqa
            ctx.violation('reference-load/%s' % name, 'loading the reference cart %s raised %s' % (name, e), {'kind': 'ref', 'name': name})
            continue
        m1, m2 = cartio.game_memory(g1), cartio.game_memory(g2)
        if m1 != m2:
            d = cartio.diff_list(m1, m2)
            # (the music bit the .p8 format cannot hold is the only allowed difference)
            real = [x for x in d if not (0x3100 <= x[0] < 0x3200 and (x[0] - 0x3100) % 4 == 3 and (m1[x[0]] ^ x[1]) == 128)]
            if real:
                ctx.violation('reference-pair-differs/%s' % name, '%s.p8 and %s.p8.png load to different regions: %d bytes, first at 0x%04x' % (name, name, len(real), real[0][0]),
                              {'kind': 'ref', 'name': name})
                continue
        # the PICO-8-written .p8 against the memory loaded from the .png
        data = open(p8f, 'rb').read()
        header, rows, cps, names = cartio.p8_observation(data)
        lab = None
        rec = {'pat': [0, 0], 'ov': {str(a): m2[a] if not (0x3100 <= a < 0x3200 and (a - 0x3100) % 4 == 3) else m2[a] & 127 for a in range(0x4300)},
               'lpat': [], 'lov': {}, 'code': [], 'version': g1.version, 'header': header, 'rows': dict(rows, label=[]), 'lua': [], 'focus': 'C16',
               'rb': {'diff': [], 'code': [], 'labelPresent': False, 'labelDiff': [], 'version': g1.version}, 'rewriteSame': True}
        # PICO-8 may omit trailing all-default rows in newer versions; the reference files are complete
        traces.append(rec)
        meta.append(name)
        # the PICO-8-written .png against the memory loaded from the .p8
        pngbytes = open(pngf, 'rb').read()
        idxs = [i for i in sample_idxs(rnd, 600) if i < 0x4300]
        px, dims = png_pixels(pngbytes, pngbytes, idxs)
        mm = bytearray(m1)
        ptraces.append({'mem': list(mm), 'area': [], 'code': [], 'version': g2.version, 'pixels': [p for p in px if not (0x3100 <= p['i'] < 0x3200 and (p['i'] - 0x3100) % 4 == 3)], 'focus': 'C16',
                        'outcome': 'ok', 'rawLen': 0, 'compLen': 0, 'rb': {'checked': False, 'diff': [], 'code': [], 'version': 0}})
        pmeta.append(name)
    tf = os.path.join(ctx.tmp, 'table.json')
    if traces:
        v = ctx.validate('TraceP8', traces, env={'TABLE_FILE': tf}, max_bytes=3000000)
        for name, vv in zip(meta, v):
            if vv[0] == 'ok':
                ctx.nontrivial += 1
            else:
                ctx.violation('reference-p8-%s/%s' % (vv[0], name), 'the PICO-8-written %s.p8 is not the format\'s text for the regions picotool loads from %s.p8.png (%s, section %d row %d): reader and format disagree' % (
                    name, name, vv[0], vv[1], vv[2]), {'kind': 'ref', 'name': name})
    if ptraces:
        v = ctx.validate('TracePng', ptraces, max_bytes=3000000)
        for name, vv in zip(pmeta, v):
            if vv[0] == 'ok':
                ctx.nontrivial += 1
            else:
                ctx.violation('reference-png-%s/%s' % (vv[0], name), 'pixels of the PICO-8-written %s.p8.png do not carry the regions picotool loads from %s.p8 (%s)' % (name, name, vv[0]),
                              {'kind': 'ref', 'name': name})


def run(ctx):
    rnd = random.Random(ctx.seed)
    ctx.rule = ('unit level: all 65536 sfx note words, 256 gfx byte values x 6 columns, 256 bytes through the PNG channel split, 48 music flag/channel rows, each in both directions; '
                'whole carts: sparse edge patterns and dense random regions, rows judged one by one; reference pairs written by PICO-8; non-trivial = encoding agrees in both directions / file accepted')
    ctx.assumptions = ['CartFormat.tla / TraceP8.tla / TracePng.tla state the PICO-8 file formats (written from the format description, not from the code)',
                       'PNG container validity is decided by the independent stdlib decoder (refpng.py), outside TLA+',
                       'the reference carts in fixtures/carts were written by PICO-8']
    unit_level(ctx)
    whole_carts(ctx, rnd)
    reference_pairs(ctx, rnd)
    ctx.exhaustive = True


def replay(ctx, path):
    run(ctx)
