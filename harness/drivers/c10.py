"""C10 - luafmt output is canonical: indentation follows nesting, idempotent.

GenProg programs laid out one token / one statement per line behind junk indentation, tabs,
trailing spaces and blank-line runs are formatted at several widths; TraceFmt (focus C10) judges
G1 indentation = width x depth (depth from the grammar's + / - markers), G2 no trailing whitespace,
G3 at most one blank line, G4 no blank line at the end, G5 re-indented / trailing-space variants of
the input give the same output, G6 formatting the output again changes nothing.
"""
import json
import random

from .. import core, progs, fmt
from . import c09


def junk_lines(src, rnd):
    """arbitrary leading / trailing whitespace, tabs, blank-line runs, comment lines (line breaks of code kept)"""
    out = []
    for l in src.split(b'\n'):
        if l.strip():
            l = (b' ' * rnd.randrange(6)) + (b'\t' if rnd.randrange(4) == 0 else b'') + l.strip(b' \t') + (b' ' * rnd.randrange(3))
        out.append(l)
        r = rnd.randrange(10)
        if r == 0:
            # runs of blank lines, some of them holding only spaces / tabs
            out += [rnd.choice((b'', b'', b'  ', b'\t', b'   \t ')) for _ in range(rnd.randrange(1, 4))]
        elif r == 1:
            out.append(b'   -- note ' + bytes([rnd.randrange(48, 122)]) + rnd.choice((b'', b'\t', b' \t', b'  ')))
        elif r == 2 and l.strip() and b'[[' not in l and b'"' not in l and b"'" not in l:
            # an end-of-line comment whose line ends in blanks or a tab
            out[-1] = out[-1].rstrip(b' \t') + rnd.choice((b' -- e', b'  // e', b'\t--e')) + rnd.choice((b'\t', b' ', b' \t ', b''))
    if rnd.randrange(3) == 0 and out:
        # one long run (dozens of lines) of comment lines and blank lines, each with its own indentation and trailing blanks
        k = rnd.randrange(len(out) + 1)
        run = []
        for _ in range(rnd.randrange(9, 40)):
            c = rnd.randrange(5)
            if c == 0:
                run.append(rnd.choice((b'', b'  ', b'\t', b' \t ')))
            else:
                run.append(b' ' * rnd.randrange(7) + (b'\t' if c == 1 else b'') + rnd.choice((b'-- n', b'--', b'// s', b'--[[b]]')) + bytes([rnd.randrange(48, 122)]) + rnd.choice((b'', b' ', b'  ', b'\t', b' \t')))
        out[k:k] = run
    return b'\n'.join(out)


def cases_for(ctx, sets, layouts):
    out = []
    for label, behs in sets:
        for k, b in enumerate(behs):
            if not progs.real_tokens(b):
                continue
            lay = layouts[k % len(layouts)]
            rnd = random.Random(ctx.seed * 104729 + k)
            src = progs.render(b, lay, rnd)
            if src is None:
                continue
            if k % 2:
                src = junk_lines(src.rstrip(b'\n'), rnd) + b'\n'
            out.append(('%s#%d/%s' % (label, k, lay), src, b['deriv'], True))
            if any(x['t'] in ('unop', 'binop') for x in b['toks']) and k % 4 == 0:
                src2 = progs.render(b, lay, random.Random(ctx.seed * 104729 + k), respell=('minus', 'dots', 'tilde')[(k // 4) % 3])
                if src2 is not None and src2 != src:
                    out.append(('%s#%d/%s/respelled' % (label, k, lay), src2, b['deriv'], True))
    return out


def run(ctx):
    rnd = random.Random(ctx.seed)
    ctx.rule = ('GenProg programs laid out one token per line / one statement per line with junk indentation, tabs, trailing spaces, blank-line runs and comment lines '
                'x indent widths; each with 3 re-indented variants and a second formatting pass; non-trivial = accepted to the end (verdict ok)')
    ctx.assumptions = ['depth of a token = number of + markers minus - markers of LuaSyntax.tla before it (blocks, parentheses, brackets, braces, parameter lists)',
                       'lines starting with a comment are not constrained; whitespace inside comments and long strings is not constrained']
    sets = c09.gen_sets(ctx)
    cases = cases_for(ctx, sets, ('lines', 'spaced', 'lines', 'semis'))
    if ctx.quick:
        res = c09.judge(ctx, cases[::2], (2,), focus='C10', variants=True)
        c09.judge(ctx, cases[1::6], (0, 4), focus='C10', variants=True)
    else:
        res = c09.judge(ctx, cases, (2,), focus='C10', variants=True)
        c09.judge(ctx, cases[::4], (0, 1, 3, 4, 5, 6, 7, 8), focus='C10', variants=True)
    # the indent width as the user gives it: `p8tool luafmt --indentwidth=W` for the boundary widths, .p8 and .p8.png carts
    d, p, png, src0, runcli = c09.cli_setup(ctx)
    ctr = []
    for w, name, want, out, deriv in c09.cli_fmt_outputs(ctx, d, p, png, src0, runcli):
        wd = 2 if w is None else w
        again, _, _ = fmt.run_writer(out, 'fmt', wd)
        ctr.append(({'src': list(want), 'out': list(out), 'width': wd, 'deriv': deriv, 'statsIn': 0, 'statsOut': 0, 'again': list(again if again is not None else b'<raises>'),
                     'variants': [], 'focus': 'C10'}, (w, name)))
    if ctr:
        vv = ctx.validate('TraceFmt', [t for t, _ in ctr])
        for (t, (w, name)), x in zip(ctr, vv):
            ctx.evaluations += 1
            if x[0] == 'ok':
                ctx.nontrivial += 1
            elif not x[0].startswith('ood'):
                ctx.violation('cli-luafmt/%s/width-%s' % (x[0], w), 'output of p8tool luafmt --indentwidth %s for %s rejected (%s)' % (w, name, x[0]), {'kind': 'cli', 'width': w})
    fx = c09.fixture_cases(ctx, rnd)
    c09.judge(ctx, fx, (0, 2, 4) if ctx.quick else tuple(range(9)), focus='C10', variants=False)
    # canaries (hand-written traces)
    src = b'if a then\nb=1\nend\n'
    der = ['Chunk', 'StStat', 'If', 'Exp', 'UnNone', 'TPrefix', 'PName', 'SufNone', 'TailNone', 'Chunk', 'StStat', 'Assign', 'VL1', 'VarName', 'EL1', 'Exp',
           'UnNone', 'TNum', 'TailNone', 'StEnd', 'ElifNone', 'ElseNone', 'StEnd']

    def T(out, again=None, variants=()):
        return {'src': list(src), 'out': list(out), 'width': 2, 'deriv': der, 'statsIn': 0, 'statsOut': 0,
                'again': list(again if again is not None else out), 'variants': [list(v) for v in variants], 'focus': 'C10'}
    good = b'if a then\n  b=1\nend\n'
    v = ctx.validate('TraceFmt', [T(good), T(b'if a then\n b=1\nend\n'), T(b'if a then \n  b=1\nend\n'), T(b'if a then\n\n\n  b=1\nend\n'),
                                  T(good + b'\n'), T(good, again=good + b' '), T(good, variants=[good, b'if a then\n  b=1\n end\n'])])
    ctx.traces -= 7
    if v[0][0] != 'ok':
        raise core.MachineryError('C10 canary base rejected: %s' % (v[0],))
    for vv, want in zip(v[1:], ('indent', 'trailing-space', 'blank-lines', 'blank-at-end', 'not-idempotent', 'layout-dependent')):
        ctx.canary(vv[0] == want, want)
    ctx.evaluations += len(cases)
    if res:
        (name, src2, out, w), vv = res[len(res) // 2]
        ctx.sample({'src': src2.decode('latin1'), 'out': out.decode('latin1'), 'width': w, 'verdict': vv[0]})


def replay(ctx, path):
    rec = json.load(open(path))['replay']
    src = bytes(rec['src'])
    from .. import ast2deriv
    try:
        d = ast2deriv.trace(src)['deriv']
    except Exception:
        d = ['Chunk', 'StEnd']
    c09.judge(ctx, [('replay', src, d, True)], (rec.get('width', 2),), focus='C10', variants=True)
