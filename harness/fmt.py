"""Shared harness for C09 / C10: runs the tree-driven writers and records traces for TraceFmt /
TraceTokens."""
import random

from . import core, progs, minify
from pico8.lua import lua

WRITERS = {'fmt': lua.LuaFormatterWriter, 'astecho': lua.LuaASTEchoWriter, 'astmin': lua.LuaMinifyWriter}


def run_writer(src, writer='fmt', width=2, chunks=None):
    """-> (out, None, info) | (None, error, info); info: consumed / nsig of the parse."""
    info = {}
    try:
        L = lua.Lua.from_lines(chunks or [src], 8)
    except Exception as e:  # noqa
        return None, 'load: %s: %s' % (type(e).__name__, str(e)[:80]), info
    toks = L.tokens
    sig = [k for k, t in enumerate(toks) if type(t).__name__ in minify.SIGK]
    info['nsig'] = len(sig)
    info['consumed'] = sum(1 for k in sig if k < L.root.end_pos)
    args = {'indentwidth': width} if writer == 'fmt' else {}
    try:
        out = b''.join(L.to_lines(writer_cls=WRITERS[writer], writer_args=args))
        return out, None, info
    except Exception as e:  # noqa
        import traceback
        fr = [f.name for f in traceback.extract_tb(e.__traceback__)][-2:]
        info['where'] = '>'.join(fr)
        return None, 'write: %s: %s @%s' % (type(e).__name__, str(e)[:80], info['where']), info


def reindent_variants(src, rnd):
    """Same program, same line breaks, different indentation / trailing spaces (G5).
    Only for sources without multi-line tokens."""
    lines = src.split(b'\n')
    v1 = b'\n'.join(l.strip(b' \t') for l in lines)
    v2 = b'\n'.join(((b' ' * rnd.randrange(7)) + (b'\t' if rnd.randrange(3) == 0 else b'') + l.strip(b' \t')) if l.strip() else l.strip(b' \t') for l in lines)
    v3 = b'\n'.join((l.rstrip(b' \t') + b' ' * rnd.randrange(3) + (b'\t' if rnd.randrange(4) == 0 else b'')) if l.strip() else l for l in lines)
    return [v1, v2, v3]
