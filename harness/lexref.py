"""Comparison of picotool's lexer with the token lists dictated by P8Lex (printed by TLC)."""
import re
from fractions import Fraction

from . import core  # noqa: F401  (sets sys.path for pico8)
from pico8.lua import lexer

KIND = {'TokSpace': 'sp', 'TokNewline': 'nl', 'TokComment': 'com', 'TokString': 'str',
        'TokNumber': 'num', 'TokName': 'name', 'TokKeyword': 'kw', 'TokSymbol': 'sym',
        'TokLabel': 'label'}
SIG = ('str', 'num', 'name', 'kw', 'sym', 'label')


def kind_of(tok):
    return KIND.get(type(tok).__name__, type(tok).__name__)


def chunkings(src):
    """single chunk (the .p8.png path) and per-line chunks (the .p8 path)."""
    lines = src.split(b'\n')
    per_line = [l + b'\n' for l in lines[:-1]] + ([lines[-1]] if lines[-1] else [])
    return {'single': [src], 'perline': per_line}


def lex_impl(chunks):
    lx = lexer.Lexer(version=8)
    try:
        lx.process_lines(chunks)
    except lexer.LexerError as e:
        return None, 'LexerError: %s' % e
    except Exception as e:  # noqa
        return None, '%s: %s' % (type(e).__name__, e)
    return lx.tokens, None


def shape(b):
    """Spelling class of a token for signatures: digits->9, letters->a (e x b kept), high->H."""
    out = []
    for c in b[:24]:
        ch = chr(c)
        if ch.isdigit():
            k = '9'
        elif c >= 128:
            k = 'H'
        elif ch in 'eExXbB':
            k = ch
        elif ch.isalpha() or ch == '_':
            k = 'a'
        elif ch == '\n':
            k = 'N'
        elif ch == '\r':
            k = 'R'
        elif ch == ' ' or ch == '\t':
            k = '_'
        else:
            k = ch
        if not out or out[-1] != k or k in '.=-[]<>':
            out.append(k)
    return ''.join(out)


def line_starts(src):
    st = [0]
    for m in re.finditer(b'\n', src):
        st.append(m.end())
    return st


def in_domain(src, spec_toks):
    """Reference lexes without err/ood, every literal has a value, no lone CR."""
    for t in spec_toks:
        if t['k'] in ('err', 'ood'):
            return False
        if t['k'] == 'str' and t['v'] == [-1]:
            return False
    if re.search(br'\r(?!\n)', src):
        return False
    return True


def expected_lists(src, spec_toks):
    """Expected (start, kind, line, col, value) lists: the primary one straight from the spec and,
    when a line comment ends in a CR directly before its LF, the alternative in which each such
    CR belongs to the newline token."""
    prim = []
    pos = 0
    for t in spec_toks:
        prim.append({'k': t['k'], 'start': pos, 'line': t['line'], 'col': t['col'], 'v': t['v'], 'e': t['e'] - 1})
        pos = t['e'] - 1
    alt = None
    if any(t['k'] == 'com' and t['v'] and t['v'][0] != t['e'] for t in spec_toks):
        alt = []
        shift = False
        for x in prim:
            y = dict(x)
            if shift:
                y['start'] -= 1
                y['col'] -= 1
                shift = False
            if y['k'] == 'com' and src[y['e'] - 1:y['e'] + 1] == b'\r\n':
                y['e'] -= 1
                shift = True
            alt.append(y)
    return prim, alt


def compare(src, expected, impl_toks, check_values=True):
    """Returns None if the implementation's token list is the expected one, else
    (clause, index of the offending expected token, detail)."""
    ls = line_starts(src)
    n = len(expected)
    same_kinds = [kind_of(t) for t in impl_toks] == [t['k'] for t in expected]
    for idx in range(max(n, len(impl_toks))):
        if idx >= n:
            return ('extra-token', n - 1, 'impl has %d tokens, spec %d' % (len(impl_toks), n))
        st = expected[idx]
        if idx >= len(impl_toks):
            return ('missing-token', idx, 'impl has %d tokens, spec %d' % (len(impl_toks), n))
        it = impl_toks[idx]
        k = kind_of(it)
        lineno, charno = it._lineno, it._charno
        if lineno is None or lineno >= len(ls) or lineno < 0:
            ipos = None
        else:
            ipos = ls[lineno] + charno
        if ipos != st['start']:
            if same_kinds:
                return ('linecol', idx, 'impl line/col %s/%s, spec %s/%s' % (lineno, charno, st['line'], st['col']))
            return ('extent', max(idx - 1, 0), 'token %d starts at %s, spec %d' % (idx, ipos, st['start']))
        if k != st['k']:
            return ('kind', idx, 'impl %s, spec %s' % (k, st['k']))
        if (lineno, charno) != (st['line'], st['col']):
            return ('linecol', idx, 'impl line/col %s/%s, spec %s/%s' % (lineno, charno, st['line'], st['col']))
        if check_values:
            if k == 'str' and list(it.value) != st['v']:
                return ('strvalue', idx, 'impl %r, spec %r' % (bytes(it.value), bytes(st['v'])))
            if k == 'num' and st['v'][0] >= 0:
                want = Fraction(st['v'][0], st['v'][1])
                try:
                    got = it.value
                except Exception as e:  # noqa
                    return ('numvalue', idx, 'impl raises %s' % type(e).__name__)
                if float(want) != got:
                    return ('numvalue', idx, 'impl %r, spec %s' % (got, want))
    return None


def check_record(rec):
    """rec: {'s': [ints], 'toks': [...]} printed by TLC. Returns (status, info).
    status: 'ood' | 'ok' | 'viol'; info for viol: (chunking, clause, signature, detail)."""
    src = bytes(rec['s'])
    st = rec['toks']
    if not in_domain(src, st):
        return ('ood', None)
    prim, alt = expected_lists(src, st)
    for name, chunks in chunkings(src).items():
        toks, err = lex_impl(chunks)
        if toks is None:
            return ('viol', (name, 'impl-rejects', 'impl-rejects/' + shape(src), err))
        r = compare(src, prim, toks)
        if r is not None and alt is not None and compare(src, alt, toks) is None:
            r = None
        if r is not None:
            clause, idx, detail = r
            t = prim[min(idx, len(prim) - 1)]
            sig = '%s/%s:%s' % (clause, t['k'], shape(src[t['start']:t['e']]))
            return ('viol', (name, clause, sig, detail))
    return ('ok', None)
