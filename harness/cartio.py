"""Shared harness for C03 / C04 / C16 (and users of whole carts): building carts from a memory
pattern + overrides, writing / reading them with picotool, and splitting the written files into
the observations the TLA+ acceptors judge."""
import io
import json
import os
import random

from . import core, refpng

SECTIONS = (('gfx', 0x0000, 0x2000), ('map', 0x2000, 0x1000), ('gff', 0x3000, 0x100), ('music', 0x3100, 0x100), ('sfx', 0x3200, 0x1100))


def base(a, pat):
    return (a * pat[0] + (a // 64) * 13 + pat[1]) % 256


def memory(pat, ov):
    m = bytearray(base(a, pat) for a in range(0x4300))
    for k, v in ov.items():
        m[int(k)] = v
    return bytes(m)


def label_bytes(lpat, lov):
    if not lpat:
        return None
    m = bytearray(base(a, lpat) for a in range(0x2000))
    for k, v in lov.items():
        m[int(k)] = v
    return bytes(m)


def make_game(mem, code, label=None, version=8):
    from pico8.game import game
    from pico8.lua import lua
    from pico8.gfx import gfx
    from pico8.map import map as pmap
    from pico8.gff import gff
    from pico8.sfx import sfx
    from pico8.music import music
    g = game.Game.make_empty_game(version=version)
    g.gfx = gfx.Gfx.from_bytes(mem[0:0x2000], version=version)
    g.map = pmap.Map.from_bytes(mem[0x2000:0x3000], version=version, gfx=g.gfx)
    g.gff = gff.Gff.from_bytes(mem[0x3000:0x3100], version=version)
    g.music = music.Music.from_bytes(mem[0x3100:0x3200], version=version)
    g.sfx = sfx.Sfx.from_bytes(mem[0x3200:0x4300], version=version)
    g.lua = lua.Lua.from_lines([code] if code else [], version=version)
    g.label = gfx.Gfx.from_bytes(label, version=version) if label is not None else None
    g.version = version
    return g


def game_memory(g):
    return bytes(g.gfx._data) + bytes(g.map._data) + bytes(g.gff._data) + bytes(g.music._data) + bytes(g.sfx._data)


def game_code(g):
    return b''.join(g.lua.to_lines())


def write_p8(g):
    from pico8.game.formatter import p8
    buf = io.BytesIO()
    p8.P8Formatter.to_file(g, buf)
    return buf.getvalue()


def read_p8(data):
    from pico8.game.formatter import p8
    return p8.P8Formatter.from_file(io.BytesIO(data), filename=None, do_includes=False)


def split_p8(data):
    """Spec-side splitter of a .p8 file: header lines and the raw lines of each section
    (trusted, trivial: a section starts at a line __name__ and ends at the next one)."""
    lines = data.split(b'\n')
    header = [lines[0].decode('latin1') if lines else '', lines[1].decode('latin1') if len(lines) > 1 else '']
    secs = {}
    cur = None
    for l in lines[2:]:
        if len(l) > 4 and l.startswith(b'__') and l.endswith(b'__') and l[2:-2].isalnum():
            cur = l[2:-2].decode('latin1')
            secs[cur] = []
        elif cur is not None:
            secs[cur].append(l)
    return header, secs


def p8_observation(data):
    """rows of the data sections (blank lines dropped: the format allows them between sections)
    and the code points of the __lua__ section."""
    header, secs = split_p8(data)
    rows = {}
    for s in ('gfx', 'label', 'gff', 'map', 'sfx', 'music'):
        rows[s] = [l.decode('latin1') for l in secs.get(s, []) if l.strip()]
    lua_lines = secs.get('lua', [])
    # the section's text: its lines joined by newlines; the file's line structure gives one
    # trailing empty piece after the last newline-terminated line
    raw = b''.join(l + b'\n' for l in lua_lines)
    # blank separator lines PICO-8 / picotool put before the next section belong to the section
    # text as far as a reader is concerned; keep exactly what is there
    try:
        cps = [ord(c) for c in raw.decode('utf-8')]
    except UnicodeDecodeError:
        cps = [-1]
    return header, rows, cps, sorted(secs.keys())


def diff_list(a, b):
    n = min(len(a), len(b))
    d = [[i, b[i]] for i in range(n) if a[i] != b[i]]
    if len(a) != len(b):
        d.append([-1, len(b)])
    return d


def p8_trace(pat, ov, lpat, lov, code, version, focus):
    """Write the cart as .p8 with picotool, observe the file, read it back, rewrite."""
    mem = memory(pat, ov)
    label = label_bytes(lpat, lov)
    g = make_game(mem, code, label, version)
    data = write_p8(g)
    header, rows, cps, names = p8_observation(data)
    rec = {'pat': list(pat), 'ov': {str(k): v for k, v in ov.items()}, 'lpat': list(lpat) if lpat else [], 'lov': {str(k): v for k, v in (lov or {}).items()},
           'code': list(code), 'version': version, 'header': header, 'rows': rows, 'lua': cps, 'focus': focus,
           'rb': {'diff': [], 'code': [], 'labelPresent': False, 'labelDiff': [], 'version': -1}, 'rewriteSame': False}
    info = {'file': data, 'error': None}
    try:
        g2 = read_p8(data)
        rec['rb'] = {'diff': diff_list(mem, game_memory(g2)), 'code': list(game_code(g2)), 'labelPresent': g2.label is not None,
                     'labelDiff': diff_list(label, bytes(g2.label._data)) if (label is not None and g2.label is not None) else [],
                     'version': g2.version}
        rec['rewriteSame'] = write_p8(g2) == data
    except Exception as e:  # noqa
        info['error'] = '%s: %s' % (type(e).__name__, str(e)[:80])
        rec['rb']['version'] = -2
    return rec, info


DEFAULT_ROW = {'gfx': b'0' * 128, 'gff': b'0' * 256, 'map': b'0' * 256, 'music': b'00 41424344'}


def truncate_p8(data):
    """the same cart in the shape PICO-8 itself saves: rows at the end of the gfx / gff / map / music sections that hold
    only default data are left out, a section left without rows is left out altogether (a pure text operation)"""
    lines = data.split(b'\n')
    out = []
    i = 0
    while i < len(lines):
        l = lines[i]
        name = l[2:-2].decode('latin1') if (len(l) > 4 and l.startswith(b'__') and l.endswith(b'__')) else None
        if name in DEFAULT_ROW:
            j = i + 1
            while j < len(lines) and not (lines[j].startswith(b'__') and lines[j].endswith(b'__') and len(lines[j]) > 4):
                j += 1
            rows = [x for x in lines[i + 1:j] if x.strip()]
            while rows and rows[-1] == DEFAULT_ROW[name]:
                rows.pop()
            if rows:
                out.append(l)
                out += rows
            i = j
        else:
            out.append(l)
            i += 1
    text = b'\n'.join(out)
    return text if text.endswith(b'\n') else text + b'\n'      # (every line of a saved file ends in a newline)


def p8_truncated_trace(pat, ov, version):
    """C16, reading direction: the file picotool wrote, cut down to the shape PICO-8 saves, must load to the same memory"""
    mem = memory(pat, ov)
    g = make_game(mem, b'x=1\n', None, version)
    data = truncate_p8(write_p8(g))
    header, rows, cps, names = p8_observation(data)
    rec = {'pat': list(pat), 'ov': {str(k): v for k, v in ov.items()}, 'lpat': [], 'lov': {}, 'code': list(b'x=1\n'), 'version': version, 'header': header,
           'rows': rows, 'lua': cps, 'focus': 'C16', 'truncated': True,
           'rb': {'diff': [], 'code': [], 'labelPresent': False, 'labelDiff': [], 'version': -1}, 'rewriteSame': False}
    err = None
    try:
        g2 = read_p8(data)
        rec['rb']['diff'] = diff_list(mem, game_memory(g2))
        rec['rb']['version'] = g2.version
    except Exception as e:  # noqa
        err = '%s: %s' % (type(e).__name__, str(e)[:80])
        rec['rb']['diff'] = [[-2, 0]]
    return rec, {'file': data, 'error': err, 'rows': {k: len(v) for k, v in rows.items()}}


def lua_section_points(data):
    return p8_observation(data)[2]


# ---------------------------------------------------------------- carts for the traces
def sparse_overrides(rnd, n):
    """byte values at region starts / ends and at every nibble position of rows"""
    ov = {}
    edges = [0, 1, 63, 64, 0x0fff, 0x1000, 0x1fff, 0x2000, 0x207f, 0x2080, 0x2fff, 0x3000, 0x307f, 0x3080, 0x30ff, 0x3100, 0x3103, 0x31ff,
             0x3200, 0x3201, 0x323f, 0x3240, 0x3243, 0x3244, 0x42bc, 0x42ff]
    for a in edges:
        ov[a] = rnd.randrange(256)
    for _ in range(n):
        ov[rnd.randrange(0x4300)] = rnd.choice((0, 1, 15, 16, 127, 128, 240, 255, rnd.randrange(256)))
    return ov


def repeated_row_overrides(rnd, pat):
    """adjacent identical rows / patterns with non-default contents (sfx pattern k+1 = pattern k, gfx row r+1 = row r, ...)"""
    ov = {}
    for start, rowlen, nrows in ((0x0000, 64, 128), (0x2000, 128, 32), (0x3000, 128, 2), (0x3100, 4, 64), (0x3200, 68, 64)):
        for _ in range(3):
            r = rnd.randrange(max(1, nrows - 1))
            row = [rnd.randrange(256) for _ in range(rowlen)]
            for k in range(rnd.randrange(2, 4)):
                if r + k < nrows:
                    for i, v in enumerate(row):
                        ov[start + (r + k) * rowlen + i] = v
    return ov


_EMPTY = {}


def default_row_overrides(rnd):
    """rows that equal what a blank cart holds (all-zero pixel / map / flag rows, untouched sfx patterns with their default
    speed, silent music patterns), placed at the first, the last and some other row of each region - also at indices where
    the blank cart itself holds a different default (sfx pattern 0)"""
    if 'm' not in _EMPTY:
        from pico8.game import game
        _EMPTY['m'] = game_memory(game.Game.make_empty_game())
    E = _EMPTY['m']
    ov = {}
    for start, rowlen, nrows in ((0x0000, 64, 128), (0x2000, 128, 32), (0x3000, 128, 2), (0x3100, 4, 64), (0x3200, 68, 64)):
        for r in {0, nrows - 1, rnd.randrange(nrows), rnd.randrange(nrows)}:
            if rnd.randrange(4) == 0:
                continue
            q = rnd.choice((0, 1, nrows - 1, r))
            u = rnd.choice((None, None, 0, 0, 255))      # or a row of one byte value throughout (all zero: not even the default header)
            for i in range(rowlen):
                ov[start + r * rowlen + i] = E[start + q * rowlen + i] if u is None else u
    return ov


LUA_SAMPLES = [
    b'', b'x=1', b'x=1\n', b'-- t\nprint("hi")\n', b'print("\x80\x99\xff \x01\x0f")\n-- \xe9\n\xc8b=1\n',
    b's="tab\there" t=\'q\'\n\n\nz=3\n', bytes(b for b in range(16, 256) if b not in (34, 92)).join([b'x="', b'"\n']),
]
