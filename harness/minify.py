"""Shared harness for C01 / C02 / C19: runs the token minifier on sources and records traces
for the TraceMinify acceptor."""
import os
import random
import tempfile

from . import core, progs, lexref
from pico8.lua import lua, lexer, parser

SIGK = ('TokString', 'TokNumber', 'TokName', 'TokKeyword', 'TokSymbol', 'TokLabel')


def builtins_list():
    """PICO8_BUILTINS of the working tree: only ever widens the reserved set of the spec."""
    try:
        return sorted(list(x) for x in lua.PICO8_BUILTINS)
    except Exception:
        return []


def lex_only(src, version=8):
    L = lua.Lua(version)
    L._lexer.process_lines([src])
    return L


def stats_of(src):
    """the token count `stats` reports, for an old and a current cart version (one number: the acceptors only compare it)"""
    try:
        return lex_only(src, 8).get_token_count() * 100003 + lex_only(src, 33).get_token_count()
    except Exception:
        return -1


def title_of(src, which):
    try:
        L = lex_only(src)
        v = L.get_title() if which == 0 else L.get_byline()
        return [-1] if v is None else list(v)
    except Exception:
        return [-2]


def run_minifier(src, keep_all=False, keep_file=None, chunks=None):
    """-> (out bytes, None) or (None, error text)"""
    try:
        L = lua.Lua.from_lines(chunks or [src], 8)
    except Exception as e:  # noqa
        return None, 'load: %s: %s' % (type(e).__name__, e)
    try:
        out = b''.join(L.to_lines(writer_cls=lua.LuaMinifyTokenWriter,
                                  writer_args={'keep_all_names': keep_all, 'keep_names_from_file': keep_file}))
        return out, None
    except Exception as e:  # noqa
        return None, 'write: %s: %s' % (type(e).__name__, e)


def tree_scopes(src):
    """[first, last] significant-token indices (1-based) of every short-if, from picotool's tree."""
    L = lua.Lua.from_lines([src], 8)
    toks = L.tokens
    sig_index = {}
    n = 0
    for k, t in enumerate(toks):
        if type(t).__name__ in SIGK:
            n += 1
            sig_index[k] = n
    out = []

    def visit(node):
        if isinstance(node, parser.StatIf) and getattr(node, 'short_if', False):
            idx = [sig_index[k] for k in range(node.start_pos, node.end_pos) if k in sig_index]
            if idx:
                out.append([idx[0], idx[-1]])
        for f in getattr(node, '_fields', ()):
            walk(getattr(node, f))

    def walk(v):
        if isinstance(v, parser.Node):
            visit(v)
        elif isinstance(v, (list, tuple)):
            for x in v:
                walk(x)

    walk(L.root)
    return out


def make_trace(src, out, focus, scopes, keep_all=False, keep_file=b''):
    return {'src': list(src), 'out': list(out), 'keepAll': bool(keep_all), 'keepFile': list(keep_file),
            'builtins': BUILTINS, 'statsIn': stats_of(src), 'statsOut': stats_of(out), 'scopes': scopes,
            'titleIn': title_of(src, 0), 'titleOut': title_of(out, 0),
            'bylineIn': title_of(src, 1), 'bylineOut': title_of(out, 1), 'focus': focus}


BUILTINS = builtins_list()


def ident_occurrences(code):
    """identifier occurrences of a source in order, by the token list of the tree under test: names, and the names inside
    labels (colons and blanks stripped) - None if it does not lex"""
    try:
        L = lex_only(code)
    except Exception:
        return None
    out = []
    for t in L.tokens:
        if isinstance(t, lexer.TokName):
            out.append(bytes(t.code))
        elif isinstance(t, lexer.TokLabel):
            out.append(bytes(t.code).strip(b':').strip(b' \t'))
    return out


def names_in(src):
    try:
        L = lex_only(src)
    except Exception:
        return []
    seen = []
    for t in L.tokens:
        if isinstance(t, lexer.TokName) and t.code not in seen:
            seen.append(t.code)
    return seen


def keep_file_bytes(names, rnd=None, style=None):
    """A --keep-names-from-file file listing `names`, in one of the formats a user's editor produces:
    with / without comment and blank lines, LF / CRLF, blanks around the names, with / without a final newline.
    style 0 (or no rnd) is the plain form."""
    if rnd is None or style == 0:
        return b'# kept names\n\n' + b'\n'.join(names) + b'\n'
    eol = rnd.choice((b'\n', b'\n', b'\r\n'))
    out = [rnd.choice((b'', b'', b'# kept' + eol, eol, b'  # c' + eol, b'#' + eol + eol))]
    names = list(names)
    rnd.shuffle(names)
    for k, w in enumerate(names):
        out.append(rnd.choice((b'', b'', b' ', b'\t', b'  ')) + w + rnd.choice((b'', b'', b' ', b'\t ')))
        if k < len(names) - 1 or rnd.randrange(3):
            out.append(eol)
        if rnd.randrange(6) == 0:
            out.append(rnd.choice((eol, b'# ' + w + b'x' + eol, b' ' + eol)))
    return b''.join(out)


class KeepFiles:
    """Temp keep-names files (the option takes a path)."""

    def __init__(self, ctx):
        self.dir = tempfile.mkdtemp(prefix='keep_', dir=ctx.tmp)
        self.n = 0

    def make(self, names, rnd=None, raw=None):
        self.n += 1
        p = os.path.join(self.dir, 'keep%d.txt' % self.n)
        self.raw = raw if raw is not None else keep_file_bytes(names, rnd)
        with open(p, 'wb') as f:
            f.write(self.raw)
        return p


BINOPS = [b'+', b'-', b'*', b'/', b'%', b'^', b'..', b'<', b'<=', b'>', b'>=', b'==', b'~=', b'!=', b'and', b'or', b'&', b'|', b'^^', b'<<', b'>>', b'>>>', b'<<>', b'>><', b'\\']
UNOPS = [b'-', b'not', b'#', b'~', b'@', b'%', b'$']


def operator_adjacency_cases():
    """every (binary operator, unary operator) pair written with nothing in between, with one blank, and across a line end:
    `a/-b`, `a- -b`, `a~=~b`, `a..#b`, ... Pairs that lex to something else than the two operators are simply other
    programs (or none: load error, out of domain); the acceptor judges input and output by the reference lexer anyway."""
    out = []
    for b in BINOPS:
        for u in UNOPS:
            for gap in (b'', b' ', b'\n'):
                bb = (b' ' + b + b' ') if b.isalpha() else b
                uu = (u + b' ') if u.isalpha() else u
                out.append(('adj:%s%s%s' % (b.decode(), gap.decode().replace('\n', '<nl>'), u.decode()), b'x=a' + bb + gap + uu + b'b y=2\nz=3\n', []))
    return out


def program_cases(ctx, rnd, sets, layouts):
    """[(name, src, scopes)] from GenProg behaviour sets rendered in layouts."""
    out = []
    for label, behs in sets:
        for k, b in enumerate(behs):
            if not progs.real_tokens(b):
                continue
            lay = layouts[k % len(layouts)]
            info = {}
            src = progs.render(b, lay, random.Random(ctx.seed * 1000003 + k), info=info)
            if src is None:
                continue
            out.append(('%s#%d/%s' % (label, k, lay), src, info['scopes']))
            if any(x['t'] in ('unop', 'binop') for x in b['toks']) and k % 2 == 0:
                rs = ('minus', 'dots', 'tilde', 'slash')[(k // 2) % 4]
                info2 = {}
                lay2 = 'spaced' if lay == 'tight' else lay
                src2 = progs.render(b, lay2, random.Random(ctx.seed * 1000003 + k), info=info2, respell=rs)
                if src2 is not None and src2 != src:
                    out.append(('%s#%d/%s/%s' % (label, k, lay2, rs), src2, info2['scopes']))
    return out
