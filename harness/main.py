"""Entry point: ./check <ID> --tier quick|thorough [--replay path]."""
import argparse
import importlib
import os
import sys
import traceback

sys.path.insert(0, os.path.dirname(os.path.dirname(os.path.abspath(__file__))))
from harness import core  # noqa: E402


def main():
    ap = argparse.ArgumentParser()
    ap.add_argument('pid')
    ap.add_argument('--tier', default=os.environ.get('VERIF_TIER', 'quick'), choices=['quick', 'thorough'])
    ap.add_argument('--replay', default=None)
    a = ap.parse_args()
    seed = int(os.environ.get('VERIF_SEED', '0') or 0)
    pid = a.pid.upper()
    ctx = core.Ctx(pid, a.tier, seed, replay=a.replay)
    try:
        mod = importlib.import_module('harness.drivers.' + pid.lower())
        if a.replay:
            mod.replay(ctx, a.replay)
        else:
            mod.run(ctx)
        rc = ctx.finish(getattr(mod, 'LEVEL', 'model_checking'))
    except core.MachineryError as e:
        ctx.cleanup()
        print('MACHINERY-FAILURE %s: %s' % (pid, e))
        sys.exit(2)
    except core.WorkerError as e:
        print(e.tb_text)
        if e.in_repo:
            try:
                ctx.violation('unexpected-exception/%s@%s' % (e.etype, e.where),
                              'the code under test raised %s (%s) in %s on a call the check makes only with valid input' % (e.etype, e.msg[:120], e.where),
                              {'kind': 'exception', 'traceback': e.tb_text})
                sys.exit(ctx.finish(getattr(mod, 'LEVEL', 'model_checking')))
            except SystemExit:
                raise
            except Exception:
                pass
        ctx.cleanup()
        print('MACHINERY-FAILURE %s: %s' % (pid, e))
        sys.exit(2)
    except Exception as e:
        # An exception nobody caught. If it was raised inside the code under test (the innermost frames are picotool's),
        # on an input or call sequence the harness only uses because it is valid, the code under test is what failed:
        # that is reported as a violation of the property whose check was running (the unchanged tree never does this),
        # with the traceback as the replay. Anything else is a failure of the machinery itself (exit 2).
        tb = traceback.extract_tb(e.__traceback__)
        inner = [f for f in tb if os.path.abspath(f.filename).startswith(os.path.abspath(core.REPO) + os.sep)]
        traceback.print_exc()
        if core.raised_below_code_under_test(tb):
            where = '%s:%s' % (os.path.basename(inner[-1].filename), inner[-1].name)
            try:
                ctx.violation('unexpected-exception/%s@%s' % (type(e).__name__, where),
                              'the code under test raised %s (%s) in %s on a call the check makes only with valid input: %s' % (
                                  type(e).__name__, str(e)[:120], where, ' > '.join('%s:%d' % (f.name, f.lineno) for f in tb[-6:])),
                              {'kind': 'exception', 'traceback': traceback.format_exc()[-3000:]})
                rc = ctx.finish(getattr(mod, 'LEVEL', 'model_checking') if 'mod' in dir() else 'model_checking')
                sys.exit(rc)
            except SystemExit:
                raise
            except Exception:
                pass
        ctx.cleanup()
        print('MACHINERY-FAILURE %s: unexpected exception' % pid)
        sys.exit(2)
    sys.exit(rc)


if __name__ == '__main__':
    main()
