"""Entry point: ./check <ID> --tier quick|thorough [--replay path]."""
import argparse
import importlib
import os
import sys
import traceback

sys.path.insert(0, os.path.dirname(os.path.dirname(os.path.abspath(__file__))))
from harness import core  # noqa: E402


def main():
    ap = argparse.ArgumentParser()
    ap.add_argument('pid')
    ap.add_argument('--tier', default=os.environ.get('VERIF_TIER', 'quick'), choices=['quick', 'thorough'])
    ap.add_argument('--replay', default=None)
    a = ap.parse_args()
    seed = int(os.environ.get('VERIF_SEED', '0') or 0)
    pid = a.pid.upper()
    ctx = core.Ctx(pid, a.tier, seed, replay=a.replay)
    try:
        mod = importlib.import_module('harness.drivers.' + pid.lower())
        if a.replay:
            mod.replay(ctx, a.replay)
        else:
            mod.run(ctx)
        rc = ctx.finish(getattr(mod, 'LEVEL', 'model_checking'))
    except core.MachineryError as e:
        ctx.cleanup()
        print('MACHINERY-FAILURE %s: %s' % (pid, e))
        sys.exit(2)
    except Exception:
        ctx.cleanup()
        traceback.print_exc()
        print('MACHINERY-FAILURE %s: unexpected exception' % pid)
        sys.exit(2)
    sys.exit(rc)


if __name__ == '__main__':
    main()
