"""Tree-to-derivation visitor (DESIGN Appendix B): picotool's syntax tree -> production events of LuaSyntax.tla."""
from . import core  # noqa: F401
from pico8.lua import lua, lexer, parser as P

KM={'TokString':'str','TokNumber':'num','TokName':'name','TokKeyword':'kw','TokSymbol':'sym','TokLabel':'label'}

class V:
    def __init__(self, tokens):
        self.toks = tokens
        self.d = []
    def e(self, p): self.d.append(p)
    def chunk(self, n, first=False):
        self.e('Chunk1' if first else 'Chunk')
        self.stats(n.stats, first)
    def stats(self, lst, first=False):
        pre = 'St1' if first else 'St'
        if not lst:
            assert not first
            self.e('StEnd'); return
        s = lst[0]
        if isinstance(s, P.StatReturn):
            assert len(lst) == 1
            self.e(pre+'Ret')
            if s.explist is None: self.e('RetNone')
            else: self.e('RetSome'); self.explist(s.explist.exps)
        elif isinstance(s, P.StatBreak):
            assert len(lst) == 1
            self.e(pre+'Break')
        else:
            self.e(pre+'Stat'); self.stat(s); self.stats(lst[1:])
    def stat(self, s):
        if isinstance(s, P.StatAssignment):
            self.e('Assign'); self.varlist(s.varlist.vars); self.explist(s.explist.exps)
        elif isinstance(s, P.StatFunctionCall):
            self.e('CallStat'); self.chain(s.functioncall, 'c')
        elif isinstance(s, P.StatDo):
            self.e('Do'); self.chunk(s.block)
        elif isinstance(s, P.StatWhile):
            self.e('While'); self.exp(s.exp); self.chunk(s.block)
        elif isinstance(s, P.StatRepeat):
            self.e('Repeat'); self.chunk(s.block); self.exp(s.exp)
        elif isinstance(s, P.StatIf):
            pairs = s.exp_block_pairs
            if getattr(s, 'short_if', False):
                self.e('ShortIf'); self.exp(pairs[0][0]); self.chunk(pairs[0][1], True)
                if len(pairs) > 1:
                    self.e('SElse'); self.chunk(pairs[1][1], True)
                else:
                    # an `else` with nothing after it has no block in picotool's tree (by design, pinned by its tests);
                    # an empty else part denotes nothing, so the tree still is the tree of the program: the event is
                    # taken from the statement's own token range
                    k = pairs[0][1].end_pos
                    while k < s.end_pos and type(self.toks[k]).__name__ in ('TokSpace', 'TokComment', 'TokSymbol') and \
                            (type(self.toks[k]).__name__ != 'TokSymbol' or self.toks[k].code == b';'):
                        k += 1
                    if k < s.end_pos and self.toks[k].matches(lexer.TokKeyword(b'else')):
                        self.e('SElseEmpty')
                    else:
                        self.e('SElseNone')
            else:
                self.e('If'); self.exp(pairs[0][0]); self.chunk(pairs[0][1])
                rest = pairs[1:]
                els = None
                if rest and rest[-1][0] is None:
                    els = rest[-1]; rest = rest[:-1]
                for (c, b) in rest:
                    self.e('Elif'); self.exp(c); self.chunk(b)
                self.e('ElifNone')
                if els: self.e('Else'); self.chunk(els[1])
                else: self.e('ElseNone')
        elif isinstance(s, P.StatForStep):
            self.e('ForStep'); self.exp(s.exp_init); self.exp(s.exp_end)
            if s.exp_step is not None: self.e('Step'); self.exp(s.exp_step)
            else: self.e('StepNone')
            self.chunk(s.block)
        elif isinstance(s, P.StatForIn):
            self.e('ForIn'); self.namelist(s.namelist.names); self.explist(s.explist.exps); self.chunk(s.block)
        elif isinstance(s, P.StatFunction):
            self.e('Function'); self.e('FName')
            for _ in s.funcname.namepath[1:]: self.e('FnPath')
            self.e('FnPathNone')
            self.e('FnMeth' if s.funcname.methodname is not None else 'FnMethNone')
            self.funcbody(s.funcbody)
        elif isinstance(s, P.StatLocalFunction):
            self.e('LocalFunc'); self.funcbody(s.funcbody)
        elif isinstance(s, P.StatLocalAssignment):
            self.e('Local'); self.namelist(s.namelist.names)
            if s.explist is not None: self.e('LInit'); self.explist(s.explist.exps)
            else: self.e('LInitNone')
        elif isinstance(s, P.StatGoto): self.e('Goto')
        elif isinstance(s, P.StatLabel): self.e('LabelSt')
        else: raise Exception('stat? %r' % s)
    def funcbody(self, b):
        self.e('FBody')
        if b.parlist is None:
            self.e('ParDots' if b.dots is not None else 'ParNone')
        else:
            self.e('ParNamesDots' if b.dots is not None else 'ParNames')
            self.namelist(b.parlist.names)
        self.chunk(b.block)
    def namelist(self, names):
        for _ in names[:-1]: self.e('NLn')
        self.e('NL1')
    def varlist(self, vs):
        for v in vs[:-1]: self.e('VLn'); self.var(v)
        self.e('VL1'); self.var(vs[-1])
    def var(self, v):
        if isinstance(v, P.VarName): self.e('VarName')
        else: self.e('VarSuf'); self.chain(v, 'v')
    def explist(self, es):
        for x in es[:-1]: self.e('ELn'); self.exp(x)
        self.e('EL1'); self.exp(es[-1])
    def chain(self, n, mode):
        sufs = []
        while isinstance(n, (P.VarIndex, P.VarAttribute, P.FunctionCall, P.FunctionCallMethod)):
            sufs.append(n); n = n.exp_prefix
        sufs.reverse()
        if isinstance(n, P.VarName): self.e('PName')
        else: self.e('PParen'); self.exp(n)
        if mode == 's':
            for s in sufs: self.e('SufMore'); self.anysuf(s)
            self.e('SufNone')
        else:
            for s in sufs[:-1]: self.e('SVMore' if mode == 'v' else 'SCMore'); self.anysuf(s)
            last = sufs[-1]
            if mode == 'v':
                if isinstance(last, P.VarIndex): self.e('SVIdx'); self.exp(last.exp_index)
                else:
                    assert isinstance(last, P.VarAttribute); self.e('SVAttr')
            else:
                if isinstance(last, P.FunctionCall): self.e('SCCall'); self.args(last.args)
                else:
                    assert isinstance(last, P.FunctionCallMethod); self.e('SCMeth'); self.args(last.args)
    def anysuf(self, s):
        if isinstance(s, P.VarIndex): self.e('SufIdx'); self.exp(s.exp_index)
        elif isinstance(s, P.VarAttribute): self.e('SufAttr')
        elif isinstance(s, P.FunctionCall): self.e('SufCall'); self.args(s.args)
        else: self.e('SufMeth'); self.args(s.args)
    def args(self, a):
        if isinstance(a, P.FunctionArgs):
            self.e('ArgsParen')
            if a.explist is None: self.e('ArglNone')
            else: self.e('ArglSome'); self.explist(a.explist.exps)
        elif isinstance(a, P.TableConstructor): self.e('ArgsTable'); self.table(a)
        else:
            assert isinstance(a, lexer.TokString); self.e('ArgsStr')
    def flatten(self, n):
        if isinstance(n, P.ExpBinOp): return self.flatten(n.exp1) + [('b', n)] + self.flatten(n.exp2)
        if isinstance(n, P.ExpUnOp): return [('u', n)] + self.flatten(n.exp)
        return [('t', n)]
    def exp(self, n):
        items = self.flatten(n)
        self.e('Exp')
        i = 0
        def unops_term():
            nonlocal i
            while items[i][0] == 'u': self.e('Un'); i += 1
            self.e('UnNone')
            assert items[i][0] == 't'; self.term(items[i][1]); i += 1
        unops_term()
        while i < len(items):
            assert items[i][0] == 'b'; self.e('Tail'); i += 1
            unops_term()
        self.e('TailNone')
    def term(self, n):
        if isinstance(n, P.VarargDots): self.e('TDots'); return
        assert isinstance(n, P.ExpValue), n
        v = n.value
        if v is None: self.e('TNil')
        elif v is False: self.e('TFalse')
        elif v is True: self.e('TTrue')
        elif isinstance(v, lexer.TokNumber): self.e('TNum')
        elif isinstance(v, lexer.TokString): self.e('TStr')
        elif isinstance(v, P.Function): self.e('TFunc'); self.funcbody(v.funcbody)
        elif isinstance(v, P.TableConstructor): self.e('TTable'); self.table(v)
        elif isinstance(v, (P.VarName, P.VarIndex, P.VarAttribute, P.FunctionCall, P.FunctionCallMethod)):
            self.e('TPrefix'); self.chain(v, 's')
        else:
            self.e('TPrefix'); self.e('PParen'); self.exp(v); self.e('SufNone')
    def table(self, t):
        self.e('Table')
        if not t.fields: self.e('FNone'); return
        self.e('F1'); self.field(t.fields[0])
        for f in t.fields[1:]: self.e('FTMore'); self.field(f)
        trail = any(isinstance(x, lexer.TokSymbol) and x.code in (b',', b';')
                    for x in self.toks[t.fields[-1].end_pos:t.end_pos])
        self.e('FTSep' if trail else 'FTNone')
    def field(self, f):
        if isinstance(f, P.FieldExpKey): self.e('FieldKey'); self.exp(f.key_exp); self.exp(f.exp)
        elif isinstance(f, P.FieldNamedKey): self.e('FieldNamed'); self.exp(f.exp)
        else: self.e('FieldExp'); self.exp(f.exp)

def trace(src):
    L = lua.Lua.from_lines([src], 4)
    toks = L.tokens
    v = V(toks); v.chunk(L.root)
    sig = []
    for t in toks:
        k = KM.get(type(t).__name__)
        if k is None: continue
        sig.append({'k': k, 't': t.code.decode('latin1') if k in ('kw','sym') else '', 'line': t._lineno})
    nsig_consumed = sum(1 for t in toks[:L.root.end_pos] if type(t).__name__ in KM)
    return {'toks': sig, 'deriv': v.d, 'consumed': nsig_consumed}
