"""Binding of Session.tla (a library session on one Game: edits through accessors / write_cart_data /
fresh section objects, saves to .p8 and .p8.png, loads) to the code. TLC draws the histories and
prints, after every step, the version of every region the cart and each file must hold; the harness
performs the step on a real Game, keeps the concrete bytes of every (region, version) it produced,
and compares after every step: the cart's memory and code with the model's versions, and - after a
save - the file read back with the versions the model says the file holds."""
import os
import shutil
import tempfile

from . import core, cartio

CFG = '''SPECIFICATION Spec
CONSTANTS MaxSteps = %d
NSeq = %d
CONSTRAINT Emit
CHECK_DEADLOCK FALSE
'''
MC = '''SPECIFICATION MCSpec
CONSTANTS MaxSteps = 3
NSeq = 1
PROPERTY SaveIsCurrent
PROPERTY LoadIsSnapshot
PROPERTY EditIsLocal
PROPERTY FilesOnlyBySave
CHECK_DEADLOCK FALSE
'''
REG = {'gfx': (0, 0x2000), 'map': (0x2000, 0x3000), 'gff': (0x3000, 0x3100), 'music': (0x3100, 0x3200), 'sfx': (0x3200, 0x4300)}
EXT = {'p8': '.p8', 'png': '.p8.png'}


def start_memory():
    m = bytearray(cartio.memory((3, 41), {}))
    for a in range(0x3103, 0x3200, 4):
        m[a] &= 127                     # (the bit the .p8 text cannot hold)
    return m


def code_for(n):
    return b'-- session\n-- v%d\nfunction _draw()\n cls() print("v" .. %d, %d, 2)\nend\n' % (n, n, n % 100)


def edit(g, exp, r, how, n):
    """performs edit number n on region r of game g by the API `how`; updates exp (expected memory) by the
    documented meaning of the call"""
    from pico8.lua import lua
    if r == 'lua':
        g.lua = lua.Lua.from_lines([code_for(n)], version=g.lua.version if hasattr(g.lua, 'version') else 8)
        return
    a, b = REG[r]
    v = (n * 37 + 5) % 256
    if how == 'raw':
        ln = (3, 64, 130, 7)[n % 4]
        off = (0, (b - a) - ln, ((b - a) // 2) - 1, 68 * (n % 50))[n % 4] if r != 'music' else (n * 8) % 200
        off = max(0, min(off, (b - a) - ln))
        data = bytes((v + i * 3) % 256 & (127 if r == 'music' else 255) for i in range(ln))
        g.write_cart_data(data, a + off)
        exp[a + off:a + off + ln] = data
    elif how == 'replace':
        new = bytearray(exp[a:b])
        for i in (0, (b - a) // 3, (b - a) - 1):
            new[i] = (new[i] + v + 1) % 256 & (127 if r == 'music' else 255)
        sec = getattr(g, r)
        if r == 'map':
            obj = type(sec).from_bytes(bytes(new), version=8, gfx=g.gfx)
        else:
            obj = type(sec).from_bytes(bytes(new), version=8)
        setattr(g, r, obj)
        if r == 'gfx':
            g.map._gfx = obj
        exp[a:b] = new
    else:
        if r == 'gfx':
            # one pixel of sprite id (upper half of the sheet only: the lower half is shared with the map)
            sid, px = n % 128, v % 16
            g.gfx.set_sprite(sid, [[px]])
            addr = (sid // 16) * 8 * 64 + (sid % 16) * 4
            exp[addr] = (exp[addr] & 0xf0) | px
        elif r == 'map':
            x, y = (n * 7) % 128, n % 32
            g.map.set_cell(x, y, v)
            exp[0x2000 + y * 128 + x] = v
        elif r == 'gff':
            sid = (n * 11) % 256
            g.gff.reset_flags(sid, v)
            exp[0x3000 + sid] = v
        elif r == 'sfx':
            sid = n % 64
            if n % 2:
                g.sfx.set_properties(sid, note_duration=v, loop_start=v % 32)
                exp[0x3200 + sid * 68 + 65] = v
                exp[0x3200 + sid * 68 + 66] = v % 32
            else:
                note = (n // 2) % 32
                g.sfx.set_note(sid, note, pitch=v % 64, waveform=n % 8, volume=(n // 3) % 8, effect=n % 8)
                w = (v % 64) | ((n % 8) << 6) | (((n // 3) % 8) << 9) | ((n % 8) << 12)
                exp[0x3200 + sid * 68 + note * 2] = w & 255
                exp[0x3200 + sid * 68 + note * 2 + 1] = w >> 8
        elif r == 'music':
            pid, ch = n % 64, n % 3                 # (channels 0-2: the 4th channel byte's top bit has no place in .p8)
            g.music.set_channel(pid, ch, v % 64)
            exp[0x3100 + pid * 4 + ch] = (exp[0x3100 + pid * 4 + ch] & 0x80) | (v % 64)


def _history(item):
    steps, tmp = item
    core.quiet_picotool()
    from pico8.game import file as gfile
    d = tempfile.mkdtemp(prefix='sess_', dir=tmp)
    exp = start_memory()
    g = cartio.make_game(bytes(exp), code_for(0), None, 16)
    code_v = 0
    snaps = {}
    out = []
    n = 0
    for s in steps:
        cmd = s['cmd']
        n += 1
        prob = None
        try:
            if cmd['c'] == 'edit':
                edit(g, exp, cmd['r'], cmd['how'], n)
                if cmd['r'] == 'lua':
                    code_v = n
            elif cmd['c'] == 'save':
                fp = os.path.join(d, 's' + EXT[cmd['f']])
                gfile.to_file(g, fp)
                snaps[cmd['f']] = (bytes(exp), code_v)
                g2 = gfile.from_file(fp)
                mem2, code2 = cartio.game_memory(g2), cartio.game_code(g2)
                for r, (a, b) in REG.items():
                    if mem2[a:b] != bytes(exp[a:b]):
                        k = next(i for i in range(a, b) if mem2[i] != exp[i])
                        prob = ('saved-file', r, 'the %s file just saved holds %02x at 0x%04x, the cart holds %02x' % (EXT[cmd['f']], mem2[k], k, exp[k]))
                        break
                if prob is None and code2.rstrip(b'\n') != code_for(code_v).rstrip(b'\n'):
                    prob = ('saved-file', 'lua', 'the %s file just saved holds code %r, the cart holds %r' % (EXT[cmd['f']], code2[:40], code_for(code_v)[:40]))
            else:
                fp = os.path.join(d, 's' + EXT[cmd['f']])
                g = gfile.from_file(fp)
                exp = bytearray(snaps[cmd['f']][0])
                code_v = snaps[cmd['f']][1]
        except Exception as e:  # noqa
            prob = ('raises', cmd.get('r', cmd.get('f')), '%s: %s' % (type(e).__name__, str(e)[:80]))
        if prob is None:
            mem = cartio.game_memory(g)
            if mem != bytes(exp):
                k = next(i for i in range(0x4300) if mem[i] != exp[i])
                r = next(r for r, (a, b) in REG.items() if a <= k < b)
                prob = ('cart-memory', r, 'the cart holds %02x at 0x%04x, expected %02x' % (mem[k], k, exp[k]))
            elif cartio.game_code(g).rstrip(b'\n') != code_for(code_v).rstrip(b'\n'):
                prob = ('cart-memory', 'lua', 'the cart\'s code is %r' % cartio.game_code(g)[:40])
        out.append(prob)
        if prob:
            break
    shutil.rmtree(d, ignore_errors=True)
    return out


def run(ctx, focus, nseq=None, depth=8):
    """focus: 'p8' (C03), 'png' (C04), 'edit' (C17 / C18): which disagreements are this property's.
    Returns (steps, agreeing)."""
    nseq = nseq or (48 if ctx.quick else 600)
    if not any(r.get('name') == 'MC_Session' for r in ctx.mc_results):
        ctx.model_check('Session', MC, name='MC_Session', workers=8)
    r = ctx.tlc('Session', CFG % (depth, nseq), name='GenSession', extra=['-seed', str(ctx.seed + 29)])
    by = {}
    for x in r.jsons:
        by.setdefault(x['sid'], []).append(x)
    hists = [sorted(v, key=lambda x: x['step']) for k, v in sorted(by.items())]
    # the model's bookkeeping and the harness's must tell the same story (versions are step numbers of the last edit)
    res = core.parmap(_history, [(h, ctx.tmp) for h in hists], procs=16, chunksize=1, min_parallel=4)
    total = agree = 0
    for h, obs in zip(hists, res):
        for k, prob in enumerate(obs):
            total += 1
            if prob is None:
                agree += 1
                continue
            cmd = h[k]['cmd']
            kind, r, text = prob
            mine = (focus == 'edit' and cmd['c'] == 'edit') or (cmd['c'] in ('save', 'load') and cmd['f'] == focus) or \
                   (focus in ('p8', 'png') and kind == 'raises' and cmd['c'] != 'edit')
            if mine:
                hist = ['%s %s' % (c['cmd']['c'], c['cmd'].get('r', c['cmd'].get('f')) + ('/' + c['cmd']['how'] if 'how' in c['cmd'] else '')) for c in h[:k + 1]]
                ctx.violation('session/%s/%s/%s' % (cmd['c'] + '-' + cmd.get('f', cmd.get('how', '')), kind, r),
                              'after step %d of a library session (%s) %s; history: %s' % (k + 1, hist[-1], text, hist),
                              {'kind': 'session', 'history': [c['cmd'] for c in h[:k + 1]]})
    ctx.notes['session_steps_' + focus] = total
    ctx.notes['session_steps_agreeing_' + focus] = agree
    ctx.traces += agree
    ctx.nontrivial += agree
    ctx.evaluations += total
    return total, agree
