---------------------------- MODULE WriteCart ----------------------------
EXTENDS Integers, Sequences, FiniteSets, TLC
CONSTANTS Bounds, Fixed       \* Fixed = TRUE: the repaired index arithmetic; FALSE: the arithmetic of the pinned tree
MCBounds == <<0, 4, 7, 9, 11, 14>>
NReg == Len(Bounds) - 1
Top == Bounds[Len(Bounds)]
\* ---- Python slice semantics ----
Clamp(i, n) == IF i < 0 THEN (IF i + n < 0 THEN 0 ELSE i + n) ELSE (IF i > n THEN n ELSE i)
PySlice(s, a, b) == LET n == Len(s) lo == Clamp(a, n) hi == Clamp(b, n) IN
                      IF hi <= lo THEN <<>> ELSE SubSeq(s, lo + 1, hi)
PyAssign(s, a, b, v) == LET n == Len(s) lo == Clamp(a, n) hi0 == Clamp(b, n) hi == IF hi0 < lo THEN lo ELSE hi0 IN
                      SubSeq(s, 1, lo) \o v \o SubSeq(s, hi + 1, n)          \* may resize
\* ---- Layer P ----
PWrite(regs, addr, data) ==
  [r \in 1..NReg |-> [k \in 1..(Bounds[r+1] - Bounds[r]) |->
      LET a == Bounds[r] + k - 1 IN
        IF a >= addr /\ a < addr + Len(data) THEN data[a - addr + 1] ELSE regs[r][k]]]
\* ---- Layer I: game.py write_cart_data, one region ----
IStep(sec, start_a, end_a, addr, data) ==
  LET n == Len(data) IN
  IF Fixed THEN
    IF addr >= end_a \/ addr + n <= start_a THEN sec
    ELSE LET ds == IF addr > start_a THEN addr - start_a ELSE 0
             de == IF addr + n < end_a THEN addr + n - start_a ELSE end_a - start_a
             ts == IF addr > start_a THEN 0 ELSE start_a - addr
             te == IF addr + n < end_a THEN n ELSE end_a - addr
         IN PyAssign(sec, ds, de, PySlice(data, ts, te))
  ELSE
    IF addr > end_a \/ addr + n < start_a THEN sec
    ELSE LET ds == IF addr > start_a THEN addr - start_a ELSE 0
             de == IF addr + n < end_a THEN addr + n - start_a ELSE end_a
             ts == IF addr > start_a THEN 0 ELSE start_a - addr
             te == IF addr + n < end_a THEN n ELSE 0 - (addr + n - end_a)
         IN PyAssign(sec, ds, de, PySlice(data, ts, te))
IWrite(regs, addr, data) == [r \in 1..NReg |-> IStep(regs[r], Bounds[r], Bounds[r+1], addr, data)]
VARIABLES regs, last
Init == regs = [r \in 1..NReg |-> [k \in 1..(Bounds[r+1] - Bounds[r]) |-> 0]] /\ last = <<>>
Write(addr, n) == /\ addr + n <= Top
                  /\ LET data == [k \in 1..n |-> k] IN
                       /\ regs' = IWrite(regs, addr, data)
                       /\ last' = <<addr, n, PWrite(regs, addr, data)>>
Next == \E addr \in 0..Top, n \in 0..Top : Write(addr, n)
Spec == Init /\ [][Next]_<<regs, last>>
OneStep == last = <<>>
Refines == last # <<>> => regs = last[3]
SizesConstant == \A r \in 1..NReg : Len(regs[r]) = Bounds[r+1] - Bounds[r]
=============================================================================
