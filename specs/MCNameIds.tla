---------------------------- MODULE MCNameIds ----------------------------
(* Every generated short-name id in a bounded range is a distinct identifier that is not a Lua
   keyword (exhaustive over 0..MaxId; evaluated once as an ASSUME-like invariant). *)
EXTENDS Renamer
CONSTANT MaxId
LuaKeywords == {"and", "break", "do", "else", "elseif", "end", "false", "for", "function", "goto", "if", "in",
                "local", "nil", "not", "or", "repeat", "return", "then", "true", "until", "while"}
AllNames == {NameForId(i) : i \in 0..MaxId}
IdsDistinct == Cardinality(AllNames) = MaxId + 1
\* the allocator, not NameForId, avoids keywords: the ids whose spelling is a keyword are exactly these
KeywordIds == {i \in 0..MaxId : NameForId(i) \in LuaKeywords}
EmitNames == PrintT(ToJson([i \in 1..(MaxId + 1) |-> NameForId(i - 1)]))
=============================================================================
