---------------------------- MODULE TraceP8scii ----------------------------
(* C15 acceptor: recorded conversions of the real functions, judged against the code T.
   Trace record: {inp: bytes, uni: code points returned by p8scii_to_unicode, utf8ok, back: bytes
   returned by unicode_to_p8scii(uni) or [-1] if it raised}. *)
EXTENDS P8sciiTable, TLCExt
Traces == JsonDeserialize(IOEnv.TRACE_FILE)
VARIABLES tid, verdict
Init == tid \in 1..Len(Traces) /\ verdict = "run"
Step == /\ verdict = "run" /\ UNCHANGED tid
        /\ LET R == Traces[tid] IN
           verdict' = IF R.uni # Encode(R.inp) THEN "encode"
                      ELSE IF ~R.utf8ok THEN "utf8"
                      ELSE IF R.back # R.inp THEN "decode"
                      ELSE "ok"
Spec == Init /\ [][Step]_<<tid, verdict>>
Report == (verdict # "run") => PrintT(<<"VERDICT", tid, verdict>>)
=============================================================================
