---------------------------- MODULE FileWrite ----------------------------
(* Two-phase cart write: encode into a temporary stream, then copy to the destination.
   Faults: the k-th stream write fails, or the encoder raises by itself (Lua writer, sanity
   re-parse, a section encoder, the PNG encoder). Direct == TRUE models the mutant that
   encodes straight into the destination. *)
EXTENDS Naturals, Sequences, FiniteSets, TLC
CONSTANTS K,            \* number of stream writes a successful encode performs
          Direct        \* BOOLEAN
VARIABLES dest, tmp, phase, n, dest0
vars == <<dest, tmp, phase, n, dest0>>
Contents == {"absent", "old"}
Init == /\ dest \in Contents /\ dest0 = dest /\ tmp = 0 /\ phase = "idle" /\ n = 0
Begin == /\ phase = "idle" /\ phase' = "encoding"
         /\ IF Direct THEN dest' = "partial:0" ELSE dest' = dest       \* open(dest, 'wb+') truncates
         /\ UNCHANGED <<tmp, n, dest0>>
StreamWrite == /\ phase = "encoding" /\ n < K /\ n' = n + 1
               /\ IF Direct THEN dest' = "partial" /\ tmp' = tmp ELSE tmp' = tmp + 1 /\ dest' = dest
               /\ UNCHANGED <<phase, dest0>>
StreamFault == /\ phase = "encoding" /\ n < K /\ phase' = "failed" /\ UNCHANGED <<dest, tmp, n, dest0>>
EncoderRaises == /\ phase = "encoding" /\ phase' = "failed" /\ UNCHANGED <<dest, tmp, n, dest0>>
EncodeReturns == /\ phase = "encoding" /\ n = K /\ phase' = (IF Direct THEN "done" ELSE "encoded")
                 /\ (IF Direct THEN dest' = "new" ELSE dest' = dest) /\ UNCHANGED <<tmp, n, dest0>>
Copy == /\ phase = "encoded" /\ dest' = "new" /\ phase' = "done" /\ UNCHANGED <<tmp, n, dest0>>
Next == Begin \/ StreamWrite \/ StreamFault \/ EncoderRaises \/ EncodeReturns \/ Copy
Spec == Init /\ [][Next]_vars
\* C11: if producing the cart fails, the destination is exactly as before
FailedWriteIsNoop == phase = "failed" => dest = dest0
UntouchedWhileEncoding == phase \in {"idle", "encoding"} => dest = dest0
Completes == phase = "done" => dest = "new"
=============================================================================
