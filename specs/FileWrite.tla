---------------------------- MODULE FileWrite ----------------------------
(* Two-phase cart write: encode into a temporary stream, then copy to the destination.
   Faults: the k-th stream write fails, or the encoder raises by itself (Lua writer, sanity
   re-parse, a section encoder, the PNG encoder), or the temporary stream cannot be created
   at all (no usable temp directory). Direct == TRUE models the mutant that encodes straight
   into the destination; Fallback == TRUE the mutant that does so when the temporary stream
   is unavailable. *)
EXTENDS Naturals, Sequences, FiniteSets, TLC
CONSTANTS K,            \* number of stream writes a successful encode performs
          Direct,       \* BOOLEAN
          Fallback      \* BOOLEAN
VARIABLES dest, tmp, phase, n, dest0, direct
vars == <<dest, tmp, phase, n, dest0, direct>>
Contents == {"absent", "old"}
Init == /\ dest \in Contents /\ dest0 = dest /\ tmp = 0 /\ phase = "idle" /\ n = 0 /\ direct = Direct
Begin == /\ phase = "idle" /\ phase' = "encoding"
         /\ IF direct THEN dest' = "partial:0" ELSE dest' = dest       \* open(dest, 'wb+') truncates
         /\ UNCHANGED <<tmp, n, dest0, direct>>
\* the temporary stream cannot be created: the write is over before it began (or, mutant, falls back to the destination)
TempUnavailable == /\ phase = "idle" /\ ~direct
                   /\ IF Fallback THEN phase' = "encoding" /\ direct' = TRUE /\ dest' = "partial:0"
                                   ELSE phase' = "failed" /\ direct' = direct /\ dest' = dest
                   /\ UNCHANGED <<tmp, n, dest0>>
StreamWrite == /\ phase = "encoding" /\ n < K /\ n' = n + 1
               /\ IF direct THEN dest' = "partial" /\ tmp' = tmp ELSE tmp' = tmp + 1 /\ dest' = dest
               /\ UNCHANGED <<phase, dest0, direct>>
StreamFault == /\ phase = "encoding" /\ n < K /\ phase' = "failed" /\ UNCHANGED <<dest, tmp, n, dest0, direct>>
EncoderRaises == /\ phase = "encoding" /\ phase' = "failed" /\ UNCHANGED <<dest, tmp, n, dest0, direct>>
EncodeReturns == /\ phase = "encoding" /\ n = K /\ phase' = (IF direct THEN "done" ELSE "encoded")
                 /\ (IF direct THEN dest' = "new" ELSE dest' = dest) /\ UNCHANGED <<tmp, n, dest0, direct>>
Copy == /\ phase = "encoded" /\ dest' = "new" /\ phase' = "done" /\ UNCHANGED <<tmp, n, dest0, direct>>
Next == Begin \/ TempUnavailable \/ StreamWrite \/ StreamFault \/ EncoderRaises \/ EncodeReturns \/ Copy
Spec == Init /\ [][Next]_vars
\* C11: if producing the cart fails, the destination is exactly as before
FailedWriteIsNoop == phase = "failed" => dest = dest0
UntouchedWhileEncoding == phase \in {"idle", "encoding"} => dest = dest0       \* (two-phase protocol: not while still encoding either)
Completes == phase = "done" => dest = "new"
=============================================================================
