---------------------------- MODULE TraceP8 ----------------------------
EXTENDS Integers, Sequences, FiniteSets, TLC, Json, IOUtils, TLCExt, SequencesExt
Traces == JsonDeserialize(IOEnv.TRACE_FILE)
HexCh == <<"0","1","2","3","4","5","6","7","8","9","a","b","c","d","e","f">>
H(d) == HexCh[d + 1]
HB(b) == H(b \div 16) \o H(b % 16)
GB(b) == H(b % 16) \o H(b \div 16)
Cat(f, n) == FoldLeft(LAMBDA acc, k : acc \o f[k], "", [k \in 1..n |-> k])
\* mem is 1-based: mem[a+1] = byte at address a
GfxRow(mem, base, r) == Cat([k \in 1..64 |-> GB(mem[base + r * 64 + k])], 64)
PlainRow(mem, base, r, n) == Cat([k \in 1..n |-> HB(mem[base + r * n + k])], n)
Note(lsb, msb) == HB(lsb % 64) \o H((msb \div 128) * 8 + (msb % 2) * 4 + (lsb \div 64)) \o H((msb \div 2) % 8) \o H((msb \div 16) % 8)
SfxRow(mem, r) == LET b == 12800 + r * 68 IN
   HB(mem[b + 65]) \o HB(mem[b + 66]) \o HB(mem[b + 67]) \o HB(mem[b + 68]) \o
   Cat([k \in 1..32 |-> Note(mem[b + 2 * k - 1], mem[b + 2 * k])], 32)
MusRow(mem, r) == LET b == 12544 + r * 4 b0 == mem[b+1] b1 == mem[b+2] b2 == mem[b+3] b3 == mem[b+4] IN
   HB((b0 \div 128) + 2 * (b1 \div 128) + 4 * (b2 \div 128)) \o " " \o HB(b0 % 128) \o HB(b1 % 128) \o HB(b2 % 128) \o HB(b3 % 128)
VARIABLES tid, sec, r, verdict
vars == <<tid, sec, r, verdict>>
T == Traces[tid]
Secs == <<"gfx", "gff", "map", "sfx", "music">>
NRows == [s \in {"gfx", "gff", "map", "sfx", "music"} |-> CASE s = "gfx" -> 128 [] s = "gff" -> 2 [] s = "map" -> 32 [] s = "sfx" -> 64 [] s = "music" -> 64]
Exp(s, k) == CASE s = "gfx" -> GfxRow(T.mem, 0, k) [] s = "gff" -> PlainRow(T.mem, 12288, k, 128)
              [] s = "map" -> PlainRow(T.mem, 8192, k, 128) [] s = "sfx" -> SfxRow(T.mem, k) [] s = "music" -> MusRow(T.mem, k)
Init == tid \in 1..Len(Traces) /\ sec = 1 /\ r = 0 /\ verdict = "run"
Step == /\ verdict = "run"
        /\ IF sec > Len(Secs) THEN verdict' = "ok" /\ UNCHANGED <<tid, sec, r>>
           ELSE LET s == Secs[sec] IN
             IF r >= NRows[s] THEN sec' = sec + 1 /\ r' = 0 /\ UNCHANGED <<tid, verdict>>
             ELSE IF Len(T.rows[s]) # NRows[s] THEN verdict' = "rowcount-" \o s /\ UNCHANGED <<tid, sec, r>>
             ELSE IF T.rows[s][r + 1] # Exp(s, r) THEN verdict' = "row-" \o s /\ UNCHANGED <<tid, sec, r>>
             ELSE r' = r + 1 /\ UNCHANGED <<tid, sec, verdict>>
Spec == Init /\ [][Step]_vars
Report == (verdict # "run") => PrintT(<<"VERDICT", tid, verdict, sec, r>>)
=============================================================================
