---------------------------- MODULE TraceP8 ----------------------------
(* Acceptor for a written .p8 text cart (C16: the on-disk text is what the format prescribes for
   the memory bytes; C03: write / read round trip).
   The cart's memory is given as a pattern plus overrides: byte at address a =
   ov[ToString(a)] if present else (a * pat[1] + (a \div 64) * 13 + pat[2]) % 256
   (addresses 0x0000..0x42ff in memory-map order gfx, map, gff, music, sfx); the label, when
   present, the same way over 0..8191.
   Trace record: {pat, ov, lpat ([] = no label), lov, code, version, header: [l1, l2],
     rows: {gfx, label, gff, map, sfx, music} (lists of row strings as found in the file),
     lua (code points of the __lua__ section text),
     rb: {diff: [[addr, val]], code, labelPresent, labelDiff: [[i, val]], version}, rewriteSame, focus,
     truncated (optional, TRUE: the file is in the shape PICO-8 itself saves - the rows at the end of the gfx, gff,
     map and music sections that hold only default data are left out, as are sections left with no row; the
     reader must still produce the full regions)}. *)
EXTENDS P8sciiTable, Integers, TLCExt
Traces == JsonDeserialize(IOEnv.TRACE_FILE)
HexCh == <<"0","1","2","3","4","5","6","7","8","9","a","b","c","d","e","f">>
H(d) == HexCh[d + 1]
HB(b) == H(b \div 16) \o H(b % 16)
GB(b) == H(b % 16) \o H(b \div 16)
Cat(f, n) == FoldLeft(LAMBDA acc, k : acc \o f[k], "", [k \in 1..n |-> k])
VARIABLES tid, sec, r, verdict
vars == <<tid, sec, r, verdict>>
TR == Traces[tid]
Mem(a) == LET k == ToString(a) IN IF k \in DOMAIN TR.ov THEN TR.ov[k] ELSE (a * TR.pat[1] + (a \div 64) * 13 + TR.pat[2]) % 256
Lab(a) == LET k == ToString(a) IN IF k \in DOMAIN TR.lov THEN TR.lov[k] ELSE (a * TR.lpat[1] + (a \div 64) * 13 + TR.lpat[2]) % 256
HasLabel == TR.lpat # <<>>
\* memory map
GFX == 0   MAPB == 8192   GFF == 12288   MUS == 12544   SFX == 12800   TOP == 17152
GfxRow(k) == Cat([j \in 1..64 |-> GB(Mem(GFX + k * 64 + j - 1))], 64)
LabelRow(k) == Cat([j \in 1..64 |-> GB(Lab(k * 64 + j - 1))], 64)
PlainRow(base, k) == Cat([j \in 1..128 |-> HB(Mem(base + k * 128 + j - 1))], 128)
Note(lsb, msb) == HB(lsb % 64) \o H((msb \div 128) * 8 + (msb % 2) * 4 + (lsb \div 64)) \o H((msb \div 2) % 8) \o H((msb \div 16) % 8)
SfxRow(k) == LET b == SFX + k * 68 IN
   HB(Mem(b + 64)) \o HB(Mem(b + 65)) \o HB(Mem(b + 66)) \o HB(Mem(b + 67)) \o
   Cat([j \in 1..32 |-> Note(Mem(b + 2 * (j - 1)), Mem(b + 2 * (j - 1) + 1))], 32)
MusRow(k) == LET b == MUS + k * 4 b0 == Mem(b) b1 == Mem(b + 1) b2 == Mem(b + 2) b3 == Mem(b + 3) IN
   HB((b0 \div 128) + 2 * (b1 \div 128) + 4 * (b2 \div 128)) \o " " \o HB(b0 % 128) \o HB(b1 % 128) \o HB(b2 % 128) \o HB(b3 % 128)
Secs == <<"gfx", "label", "gff", "map", "sfx", "music">>
NRows(s) == CASE s = "gfx" -> 128 [] s = "label" -> (IF HasLabel THEN 128 ELSE 0) [] s = "gff" -> 2 [] s = "map" -> 32 [] s = "sfx" -> 64 [] s = "music" -> 64
Exp(s, k) == CASE s = "gfx" -> GfxRow(k) [] s = "label" -> LabelRow(k) [] s = "gff" -> PlainRow(GFF, k)
              [] s = "map" -> PlainRow(MAPB, k) [] s = "sfx" -> SfxRow(k) [] s = "music" -> MusRow(k)
Truncated == "truncated" \in DOMAIN TR /\ TR.truncated
Zeros128 == Cat([j \in 1..128 |-> "0"], 128)
DefaultRow(s) == CASE s \in {"gfx", "label"} -> Zeros128 [] s \in {"gff", "map"} -> Zeros128 \o Zeros128 [] s = "music" -> "00 41424344" [] OTHER -> "<never>"
Init == tid \in 1..Len(Traces) /\ sec = 0 /\ r = 0 /\ verdict = "run"
Stop(v) == verdict' = v /\ UNCHANGED <<tid, sec, r>>
\* ---- C03: what reading the file back must give ----
CodeNL == IF TR.code = <<>> \/ TR.code[Len(TR.code)] # 10 THEN TR.code \o <<10>> ELSE TR.code
\* the one bit the music line format has no place for: bit 7 of each pattern's 4th channel byte
MusicCh4(a) == a >= MUS /\ a < SFX /\ (a - MUS) % 4 = 3
RbOK == \A d \in 1..Len(TR.rb.diff) : LET a == TR.rb.diff[d][1] v == TR.rb.diff[d][2] IN MusicCh4(a) /\ v = Mem(a) % 128
Final ==
  IF TR.focus = "C16" THEN (IF ~RbOK THEN Stop("readback-memory") ELSE Stop("ok"))   \* the reader decodes the rows to the same bytes
  ELSE IF TR.lua # Encode(CodeNL) THEN Stop("lua-section")
  ELSE IF ~RbOK THEN Stop("readback-memory")
  ELSE IF TR.rb.code # CodeNL THEN Stop("readback-code")
  ELSE IF TR.rb.labelPresent # HasLabel THEN Stop("readback-label-presence")
  ELSE IF TR.rb.labelDiff # <<>> THEN Stop("readback-label")
  ELSE IF TR.rb.version # TR.version THEN Stop("readback-version")
  ELSE IF ~TR.rewriteSame THEN Stop("rewrite-differs")
  ELSE Stop("ok")
Step ==
  /\ verdict = "run"
  /\ IF sec = 0 THEN
        (IF TR.header[1] # "pico-8 cartridge // http://www.pico-8.com" THEN Stop("header")
         ELSE IF TR.header[2] # "version " \o ToString(TR.version) THEN Stop("version-line")
         ELSE sec' = 1 /\ r' = 0 /\ UNCHANGED <<tid, verdict>>)
     ELSE IF sec > Len(Secs) THEN Final
     ELSE LET s == Secs[sec] IN
       IF r = 0 /\ (IF Truncated THEN Len(TR.rows[s]) > NRows(s) ELSE Len(TR.rows[s]) # NRows(s)) THEN Stop("rowcount-" \o s)
       ELSE IF r >= NRows(s) THEN sec' = sec + 1 /\ r' = 0 /\ UNCHANGED <<tid, verdict>>
       ELSE IF r >= Len(TR.rows[s]) THEN      \* (only in a truncated file) an omitted row: it must hold default data
            (IF Exp(s, r) # DefaultRow(s) THEN Stop("row-omitted-" \o s) ELSE r' = r + 1 /\ UNCHANGED <<tid, sec, verdict>>)
       ELSE IF TR.rows[s][r + 1] # Exp(s, r) THEN Stop("row-" \o s)
       ELSE r' = r + 1 /\ UNCHANGED <<tid, sec, verdict>>
Spec == Init /\ [][Step]_vars
Report == (verdict # "run") => PrintT(<<"VERDICT", tid, verdict, sec, r>>)
=============================================================================
