---------------------------- MODULE TraceFmt ----------------------------
(* Layer P acceptor for C09/C10: the grammar pushdown machine (depth, line scopes) in product
   with a two-cursor alignment of the formatter's input and output. *)
EXTENDS LuaSyntax, Json, IOUtils, TLCExt
LX == INSTANCE P8Lex
Traces == JsonDeserialize(IOEnv.TRACE_FILE)
VARIABLES tid, stack, di, depth, scopeLineI, scopeLineO,   \* pushdown part
          i, o, lineI, lineO,                               \* cursors and line numbers
          atBol, indent, tabbed, lastSp, nlRun, seenAny,    \* output layout observation
          verdict
vars == <<tid, stack, di, depth, scopeLineI, scopeLineO, i, o, lineI, lineO, atBol, indent, tabbed, lastSp, nlRun, seenAny, verdict>>
T == Traces[tid]
Src == T.src
Out == T.out
Wd == T.width
Der == T.deriv
Init == /\ tid \in 1..Len(Traces) /\ stack = <<"chunk">> /\ di = 1 /\ depth = 0
        /\ scopeLineI = <<>> /\ scopeLineO = <<>> /\ i = 1 /\ o = 1 /\ lineI = 0 /\ lineO = 0
        /\ atBol = TRUE /\ indent = 0 /\ tabbed = FALSE /\ lastSp = FALSE /\ nlRun = 0 /\ seenAny = FALSE
        /\ verdict = "run"
Keep(vs) == UNCHANGED vs
Stop(v) == verdict' = v /\ UNCHANGED <<tid, stack, di, depth, scopeLineI, scopeLineO, i, o, lineI, lineO, atBol, indent, tabbed, lastSp, nlRun, seenAny>>
NlIn(s, a, e) == Cardinality({j \in a..(e-1) : s[j] = 10})
Squeeze(w) == SelectSeq(w, LAMBDA c : c \notin {32, 9, 10, 13})
TokI == IF i <= Len(Src) THEN LX!NextTok(Src, i) ELSE LX!Tok("eof", i)
TokO == IF o <= Len(Out) THEN LX!NextTok(Out, o) ELSE LX!Tok("eof", o)
\* map a lexical token to the grammar's token record
GTok(s, a, t) == [k |-> t.k, t |-> IF t.k \in {"kw", "sym"} THEN SubSeq(s, a, t.e - 1) ELSE <<>>]
Spell(term) == \* terminal "k:do" / "s:(" -> we compare via class membership below
  term
\* does lexical token (s,a,t) match grammar terminal h ?
RECURSIVE StrToSeq(_)
Chars == [c \in {"a","b","c","d","e","f","g","h","i","j","k","l","m","n","o","p","q","r","s","t","u","v","w","x","y","z",
                 "&","|","^","<",">","\\","=","~","!",".","+","-","*","/","%","#","@","$","(",")","{","}","[","]",";",":",","} |-> 0]
\* spelling table for operators/keywords: string -> byte sequence (only those used by the grammar)
SeqOf == [ x \in {"do","end","while","repeat","until","if","then","elseif","else","for","in","function","local",
                  "goto","return","break","nil","false","true","and","or","not",
                  "&","|","^^","<<",">>",">>>","<<>",">><","\\","<",">","<=",">=","~=","!=","==","..","+","-","*","/","%","^",
                  "#","~","@","$","=","+=","-=","*=","/=","%=","..=","(",")","{","}","[","]",";",":",",",".","..."} |->
  CASE x = "do" -> <<100,111>> [] x = "end" -> <<101,110,100>> [] x = "while" -> <<119,104,105,108,101>>
    [] x = "repeat" -> <<114,101,112,101,97,116>> [] x = "until" -> <<117,110,116,105,108>> [] x = "if" -> <<105,102>>
    [] x = "then" -> <<116,104,101,110>> [] x = "elseif" -> <<101,108,115,101,105,102>> [] x = "else" -> <<101,108,115,101>>
    [] x = "for" -> <<102,111,114>> [] x = "in" -> <<105,110>> [] x = "function" -> <<102,117,110,99,116,105,111,110>>
    [] x = "local" -> <<108,111,99,97,108>> [] x = "goto" -> <<103,111,116,111>> [] x = "return" -> <<114,101,116,117,114,110>>
    [] x = "break" -> <<98,114,101,97,107>> [] x = "nil" -> <<110,105,108>> [] x = "false" -> <<102,97,108,115,101>>
    [] x = "true" -> <<116,114,117,101>> [] x = "and" -> <<97,110,100>> [] x = "or" -> <<111,114>> [] x = "not" -> <<110,111,116>>
    [] x = "&" -> <<38>> [] x = "|" -> <<124>> [] x = "^^" -> <<94,94>> [] x = "<<" -> <<60,60>> [] x = ">>" -> <<62,62>>
    [] x = ">>>" -> <<62,62,62>> [] x = "<<>" -> <<60,60,62>> [] x = ">><" -> <<62,62,60>> [] x = "\\" -> <<92>>
    [] x = "<" -> <<60>> [] x = ">" -> <<62>> [] x = "<=" -> <<60,61>> [] x = ">=" -> <<62,61>> [] x = "~=" -> <<126,61>>
    [] x = "!=" -> <<33,61>> [] x = "==" -> <<61,61>> [] x = ".." -> <<46,46>> [] x = "+" -> <<43>> [] x = "-" -> <<45>>
    [] x = "*" -> <<42>> [] x = "/" -> <<47>> [] x = "%" -> <<37>> [] x = "^" -> <<94>> [] x = "#" -> <<35>> [] x = "~" -> <<126>>
    [] x = "@" -> <<64>> [] x = "$" -> <<36>> [] x = "=" -> <<61>> [] x = "+=" -> <<43,61>> [] x = "-=" -> <<45,61>>
    [] x = "*=" -> <<42,61>> [] x = "/=" -> <<47,61>> [] x = "%=" -> <<37,61>> [] x = "..=" -> <<46,46,61>>
    [] x = "(" -> <<40>> [] x = ")" -> <<41>> [] x = "{" -> <<123>> [] x = "}" -> <<125>> [] x = "[" -> <<91>> [] x = "]" -> <<93>>
    [] x = ";" -> <<59>> [] x = ":" -> <<58>> [] x = "," -> <<44>> [] x = "." -> <<46>> [] x = "..." -> <<46,46,46>> ]
StrToSeq(x) == SeqOf[x]
SpellSet(S) == {SeqOf[x] : x \in S}
KwTerm == [x \in {"do","end","while","repeat","until","if","then","elseif","else","for","in","function","local","goto","return","break","nil","false","true"} |-> "k:" \o x]
LexMatches(h, s, a, t) ==
  LET w == SubSeq(s, a, t.e - 1) IN
  CASE h = "Name" -> t.k = "name"
    [] h = "Number" -> t.k = "num"
    [] h = "String" -> t.k = "str"
    [] h = "Label" -> t.k = "label"
    [] h = "binop" -> t.k \in {"sym", "kw"} /\ w \in SpellSet(BinOps)
    [] h = "unop" -> t.k \in {"sym", "kw"} /\ w \in SpellSet(UnOps)
    [] h = "assignop" -> t.k = "sym" /\ w \in SpellSet(AssignOps)
    [] h = "fieldsep" -> t.k = "sym" /\ w \in {<<44>>, <<59>>}
    [] OTHER -> \/ (t.k = "kw" /\ \E x \in DOMAIN KwTerm : KwTerm[x] = h /\ SeqOf[x] = w)
                \/ (t.k = "sym" /\ \E x \in DOMAIN SeqOf : ("s:" \o x) = h /\ SeqOf[x] = w)
IsSemiTok(s, a, t) == t.k = "sym" /\ SubSeq(s, a, t.e - 1) = <<59>>
\* consume one trivia token (sp/nl) of the input
EatI(t) == /\ i' = t.e /\ lineI' = lineI + NlIn(Src, i, t.e)
           /\ UNCHANGED <<tid, stack, di, depth, scopeLineI, scopeLineO, o, lineO, atBol, indent, tabbed, lastSp, nlRun, seenAny, verdict>>
\* consume one trivia token (sp/nl) of the output, observing layout (C10 G2..G4)
EatO(t) ==
  IF t.k = "nl" /\ lastSp THEN Stop("trailing-space")
  ELSE IF t.k = "nl" /\ seenAny /\ nlRun >= 2 THEN Stop("blank-lines")
  ELSE /\ o' = t.e /\ lineO' = lineO + NlIn(Out, o, t.e)
       /\ IF t.k = "nl" THEN /\ atBol' = TRUE /\ indent' = 0 /\ tabbed' = FALSE /\ lastSp' = FALSE /\ nlRun' = nlRun + 1
          ELSE /\ atBol' = atBol /\ indent' = (IF atBol THEN t.e - o ELSE indent)
               /\ tabbed' = (atBol /\ \E j \in o..(t.e-1) : Out[j] = 9) /\ lastSp' = TRUE /\ nlRun' = nlRun
       /\ UNCHANGED <<tid, stack, di, depth, scopeLineI, scopeLineO, i, lineI, seenAny, verdict>>
\* both cursors at a non-sp/nl token: comments are aligned first
AlignComment(ti, to) ==
  IF to.k # "com" THEN Stop("comment-lost")
  ELSE IF Squeeze(SubSeq(Src, i, ti.e - 1)) # Squeeze(SubSeq(Out, o, to.e - 1)) THEN Stop("comment-changed")
  ELSE /\ i' = ti.e /\ o' = to.e /\ lineI' = lineI + NlIn(Src, i, ti.e) /\ lineO' = lineO + NlIn(Out, o, to.e)
       /\ atBol' = FALSE /\ lastSp' = FALSE /\ nlRun' = 0 /\ seenAny' = TRUE
       /\ UNCHANGED <<tid, stack, di, depth, scopeLineI, scopeLineO, indent, tabbed, verdict>>
\* match the pair of significant tokens against grammar terminal h
Shift(h, ti, to) ==
  IF ~LexMatches(h, Src, i, ti) THEN Stop("ood-parse")      \* picotool's tree does not derive the input: C08's business
  ELSE IF to.k # ti.k \/ SubSeq(Src, i, ti.e - 1) # SubSeq(Out, o, to.e - 1) THEN Stop("token-changed")
  ELSE IF scopeLineI # <<>> /\ lineI # Head(scopeLineI) THEN Stop("ood-parse")
  ELSE IF scopeLineO # <<>> /\ lineO # Head(scopeLineO) THEN Stop("scope-split")
  ELSE IF atBol /\ (tabbed \/ indent # Wd * depth) THEN Stop("indent")
  ELSE /\ i' = ti.e /\ o' = to.e /\ lineI' = lineI + NlIn(Src, i, ti.e) /\ lineO' = lineO + NlIn(Out, o, to.e)
       /\ atBol' = FALSE /\ lastSp' = FALSE /\ nlRun' = 0 /\ seenAny' = TRUE /\ stack' = Tail(stack)
       /\ UNCHANGED <<tid, di, depth, scopeLineI, scopeLineO, indent, tabbed, verdict>>
Step ==
  /\ verdict = "run"
  /\ LET ti == TokI to == TokO IN
     IF ti.k \in LX!Bad THEN Stop("ood-input")
     ELSE IF to.k \in LX!Bad THEN Stop("lex-out")
     ELSE IF ti.k \in {"sp", "nl"} THEN EatI(ti)
     ELSE IF to.k \in {"sp", "nl"} THEN EatO(to)
     ELSE IF ti.k = "com" THEN AlignComment(ti, to)
     ELSE IF to.k = "com" THEN Stop("comment-added")
     ELSE IF stack = <<>> THEN
        IF ti.k = "eof" /\ to.k = "eof" /\ di = Len(Der) + 1 THEN
            IF lastSp THEN Stop("trailing-space") ELSE IF nlRun > 1 THEN Stop("blank-at-end")
            ELSE IF T.statsIn # T.statsOut THEN Stop("stats") ELSE Stop("ok")
        ELSE IF ti.k = "eof" THEN Stop("code-added") ELSE IF to.k = "eof" THEN Stop("code-dropped") ELSE Stop("ood-parse")
     ELSE LET h == Head(stack) IN
       IF h = "+" THEN depth' = depth + 1 /\ stack' = Tail(stack) /\ UNCHANGED <<tid, di, scopeLineI, scopeLineO, i, o, lineI, lineO, atBol, indent, tabbed, lastSp, nlRun, seenAny, verdict>>
       ELSE IF h = "-" THEN depth' = depth - 1 /\ stack' = Tail(stack) /\ UNCHANGED <<tid, di, scopeLineI, scopeLineO, i, o, lineI, lineO, atBol, indent, tabbed, lastSp, nlRun, seenAny, verdict>>
       ELSE IF h = "<" THEN scopeLineI' = <<lineI>> \o scopeLineI /\ scopeLineO' = <<lineO>> \o scopeLineO /\ stack' = Tail(stack)
                            /\ UNCHANGED <<tid, di, depth, i, o, lineI, lineO, atBol, indent, tabbed, lastSp, nlRun, seenAny, verdict>>
       ELSE IF h = ">" THEN
            IF ti.k # "eof" /\ Len(scopeLineO) = 1 /\ lineO = Head(scopeLineO) /\ to.k # "eof" THEN Stop("scope-join")
            ELSE scopeLineI' = Tail(scopeLineI) /\ scopeLineO' = Tail(scopeLineO) /\ stack' = Tail(stack)
                 /\ UNCHANGED <<tid, di, depth, i, o, lineI, lineO, atBol, indent, tabbed, lastSp, nlRun, seenAny, verdict>>
       ELSE IF h = "SB" THEN
            IF ti.k # "eof" /\ IsSemiTok(Src, i, ti) THEN
                 IF to.k = "eof" \/ ~IsSemiTok(Out, o, to) THEN Stop("token-changed")
                 ELSE /\ i' = ti.e /\ o' = to.e /\ atBol' = FALSE /\ lastSp' = FALSE /\ nlRun' = 0 /\ seenAny' = TRUE
                      /\ UNCHANGED <<tid, stack, di, depth, scopeLineI, scopeLineO, lineI, lineO, indent, tabbed, verdict>>
            ELSE stack' = Tail(stack) /\ UNCHANGED <<tid, di, depth, scopeLineI, scopeLineO, i, o, lineI, lineO, atBol, indent, tabbed, lastSp, nlRun, seenAny, verdict>>
       ELSE IF IsTerm(h) THEN
            IF ti.k = "eof" THEN Stop("ood-parse") ELSE IF to.k = "eof" THEN Stop("code-dropped") ELSE Shift(h, ti, to)
       ELSE IF di <= Len(Der) /\ Der[di] \in PN /\ P[Der[di]].l = h
            THEN di' = di + 1 /\ stack' = P[Der[di]].r \o Tail(stack)
                 /\ UNCHANGED <<tid, depth, scopeLineI, scopeLineO, i, o, lineI, lineO, atBol, indent, tabbed, lastSp, nlRun, seenAny, verdict>>
            ELSE Stop("ood-parse")
Spec == Init /\ [][Step]_vars
Report == (verdict # "run") => PrintT(<<"VERDICT", tid, verdict, i, o, depth>>)
=============================================================================
