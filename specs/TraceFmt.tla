---------------------------- MODULE TraceFmt ----------------------------
(* Layer P acceptor for C09 / C10: the grammar pushdown machine (block depth, line scopes) in
   product with a two-cursor alignment of the formatter's input and output.
   Trace record: {src, out, width, deriv, statsIn, statsOut, again, variants: [out...], focus}.
     focus "C09": F2 tokens and comments identical (comments modulo whitespace), in order;
                  F3 line scopes kept; F4 stats equal
     focus "C10": G1 indentation = width * depth for every line starting with a code token,
                  G2 no trailing whitespace, G3 at most one blank line, G4 no blank line at the
                  end, G5 layout-independent (variants), G6 idempotent (again)
   A tree that does not derive the input is verdict "ood-parse" (C08's business). *)
EXTENDS LuaSyntax, Json, IOUtils, TLCExt
LX == INSTANCE P8Lex
Traces == JsonDeserialize(IOEnv.TRACE_FILE)
VARIABLES tid, stack, di, depth, scopeLineI, scopeLineO,   \* pushdown part
          i, o, lineI, lineO,                               \* cursors and line numbers
          atBol, indent, tabbed, lastSp, nlRun, seenAny,    \* output layout observation
          verdict
vars == <<tid, stack, di, depth, scopeLineI, scopeLineO, i, o, lineI, lineO, atBol, indent, tabbed, lastSp, nlRun, seenAny, verdict>>
T == Traces[tid]
Src == T.src
Out == T.out
Wd == T.width
Der == T.deriv
C9 == T.focus = "C09"
C10 == T.focus = "C10"
Init == /\ tid \in 1..Len(Traces) /\ stack = <<"chunk">> /\ di = 1 /\ depth = 0
        /\ scopeLineI = <<>> /\ scopeLineO = <<>> /\ i = 1 /\ o = 1 /\ lineI = 0 /\ lineO = 0
        /\ atBol = TRUE /\ indent = 0 /\ tabbed = FALSE /\ lastSp = FALSE /\ nlRun = 0 /\ seenAny = FALSE
        /\ verdict = "run"
Stop(v) == verdict' = v /\ UNCHANGED <<tid, stack, di, depth, scopeLineI, scopeLineO, i, o, lineI, lineO, atBol, indent, tabbed, lastSp, nlRun, seenAny>>
NlIn(s, a, e) == Cardinality({j \in a..(e-1) : s[j] = 10})
Squeeze(w) == SelectSeq(w, LAMBDA c : c \notin {32, 9, 10, 13})
TokI == IF i <= Len(Src) THEN LX!NextTok(Src, i) ELSE LX!Tok("eof", i)
TokO == IF o <= Len(Out) THEN LX!NextTok(Out, o) ELSE LX!Tok("eof", o)
IsSemiTok(s, a, t) == t.k = "sym" /\ SubSeq(s, a, t.e - 1) = <<59>>
\* consume one trivia token (sp/nl) of the input
EatI(t) == /\ i' = t.e /\ lineI' = lineI + NlIn(Src, i, t.e)
           /\ UNCHANGED <<tid, stack, di, depth, scopeLineI, scopeLineO, o, lineO, atBol, indent, tabbed, lastSp, nlRun, seenAny, verdict>>
\* consume one trivia token (sp/nl) of the output, observing layout (C10 G2..G4)
EatO(t) ==
  IF C10 /\ t.k = "nl" /\ lastSp THEN Stop("trailing-space")
  ELSE IF C10 /\ t.k = "nl" /\ seenAny /\ nlRun >= 2 THEN Stop("blank-lines")
  ELSE /\ o' = t.e /\ lineO' = lineO + NlIn(Out, o, t.e)
       /\ IF t.k = "nl" THEN /\ atBol' = TRUE /\ indent' = 0 /\ tabbed' = FALSE /\ lastSp' = FALSE /\ nlRun' = nlRun + 1
          ELSE /\ atBol' = atBol /\ indent' = (IF atBol THEN t.e - o ELSE indent)
               /\ tabbed' = (atBol /\ \E j \in o..(t.e-1) : Out[j] = 9) /\ lastSp' = TRUE /\ nlRun' = nlRun
       /\ UNCHANGED <<tid, stack, di, depth, scopeLineI, scopeLineO, i, lineI, seenAny, verdict>>
\* a comment ends in whitespace when its last byte is a space / tab / CR (line comment before the newline)
ComTrailSp(s, a, e) == s[e - 1] \in {32, 9, 13}
\* both cursors at a non-sp/nl token: comments are aligned first
AlignComment(ti, to) ==
  IF to.k # "com" THEN (IF C9 THEN Stop("comment-lost") ELSE Stop("ood-c09"))
  ELSE IF Squeeze(SubSeq(Src, i, ti.e - 1)) # Squeeze(SubSeq(Out, o, to.e - 1)) THEN (IF C9 THEN Stop("comment-changed") ELSE Stop("ood-c09"))
  ELSE /\ i' = ti.e /\ o' = to.e /\ lineI' = lineI + NlIn(Src, i, ti.e) /\ lineO' = lineO + NlIn(Out, o, to.e)
       /\ atBol' = FALSE /\ lastSp' = ComTrailSp(Out, o, to.e) /\ nlRun' = 0 /\ seenAny' = TRUE
       /\ UNCHANGED <<tid, stack, di, depth, scopeLineI, scopeLineO, indent, tabbed, verdict>>
\* match the pair of significant tokens against grammar terminal h
Shift(h, ti, to) ==
  IF ~LexMatches(h, ti.k, SubSeq(Src, i, ti.e - 1)) THEN Stop("ood-parse")      \* picotool's tree does not derive the input: C08's business
  ELSE IF scopeLineI # <<>> /\ lineI # Head(scopeLineI) THEN Stop("ood-parse")
  ELSE IF to.k # ti.k \/ SubSeq(Src, i, ti.e - 1) # SubSeq(Out, o, to.e - 1) THEN (IF C9 THEN Stop("token-changed") ELSE Stop("ood-c09"))
  ELSE IF C9 /\ scopeLineO # <<>> /\ lineO # Head(scopeLineO) THEN Stop("scope-split")
  ELSE IF C10 /\ atBol /\ (tabbed \/ indent # Wd * depth) THEN Stop("indent")
  ELSE /\ i' = ti.e /\ o' = to.e /\ lineI' = lineI + NlIn(Src, i, ti.e) /\ lineO' = lineO + NlIn(Out, o, to.e)
       /\ atBol' = FALSE /\ lastSp' = FALSE /\ nlRun' = 0 /\ seenAny' = TRUE /\ stack' = Tail(stack)
       /\ UNCHANGED <<tid, di, depth, scopeLineI, scopeLineO, indent, tabbed, verdict>>
Finish ==
  IF C10 /\ lastSp THEN Stop("trailing-space")
  ELSE IF C10 /\ nlRun > 1 THEN Stop("blank-at-end")
  ELSE IF C9 /\ T.statsIn # T.statsOut THEN Stop("stats")
  ELSE IF C10 /\ T.again # Out THEN Stop("not-idempotent")
  ELSE IF C10 /\ \E v \in 1..Len(T.variants) : T.variants[v] # Out THEN Stop("layout-dependent")
  ELSE Stop("ok")
Step ==
  /\ verdict = "run"
  /\ LET ti == TokI to == TokO IN
     IF ti.k \in LX!Bad THEN Stop("ood")
     ELSE IF to.k \in LX!Bad THEN (IF C9 THEN Stop("lex-out") ELSE Stop("ood-c09"))
     ELSE IF ti.k \in {"sp", "nl"} THEN EatI(ti)
     ELSE IF to.k \in {"sp", "nl"} THEN EatO(to)
     ELSE IF ti.k = "com" THEN AlignComment(ti, to)
     ELSE IF to.k = "com" THEN (IF C9 THEN Stop("comment-added") ELSE Stop("ood-c09"))
     ELSE IF stack = <<>> THEN
        IF ti.k = "eof" /\ to.k = "eof" /\ di = Len(Der) + 1 THEN Finish
        ELSE IF ti.k = "eof" THEN (IF C9 THEN Stop("code-added") ELSE Stop("ood-c09"))
        ELSE IF to.k = "eof" /\ di = Len(Der) + 1 THEN Stop("ood-parse")        \* input not consumed by the tree
        ELSE Stop("ood-parse")
     ELSE LET h == Head(stack) IN
       IF h = "+" THEN depth' = depth + 1 /\ stack' = Tail(stack) /\ UNCHANGED <<tid, di, scopeLineI, scopeLineO, i, o, lineI, lineO, atBol, indent, tabbed, lastSp, nlRun, seenAny, verdict>>
       ELSE IF h = "-" THEN depth' = depth - 1 /\ stack' = Tail(stack) /\ UNCHANGED <<tid, di, scopeLineI, scopeLineO, i, o, lineI, lineO, atBol, indent, tabbed, lastSp, nlRun, seenAny, verdict>>
       ELSE IF h = "<" THEN scopeLineI' = <<lineI>> \o scopeLineI /\ scopeLineO' = <<lineO>> \o scopeLineO /\ stack' = Tail(stack)
                            /\ UNCHANGED <<tid, di, depth, i, o, lineI, lineO, atBol, indent, tabbed, lastSp, nlRun, seenAny, verdict>>
       ELSE IF h = ">" THEN
            IF C9 /\ ti.k # "eof" /\ Len(scopeLineO) = 1 /\ lineO = Head(scopeLineO) /\ to.k # "eof" THEN Stop("scope-join")
            ELSE scopeLineI' = Tail(scopeLineI) /\ scopeLineO' = Tail(scopeLineO) /\ stack' = Tail(stack)
                 /\ UNCHANGED <<tid, di, depth, i, o, lineI, lineO, atBol, indent, tabbed, lastSp, nlRun, seenAny, verdict>>
       ELSE IF h = "SB" THEN
            IF ti.k # "eof" /\ IsSemiTok(Src, i, ti) THEN
                 IF to.k = "eof" \/ ~IsSemiTok(Out, o, to) THEN (IF C9 THEN Stop("token-changed") ELSE Stop("ood-c09"))
                 ELSE /\ i' = ti.e /\ o' = to.e /\ atBol' = FALSE /\ lastSp' = FALSE /\ nlRun' = 0 /\ seenAny' = TRUE
                      /\ UNCHANGED <<tid, stack, di, depth, scopeLineI, scopeLineO, lineI, lineO, indent, tabbed, verdict>>
            ELSE stack' = Tail(stack) /\ UNCHANGED <<tid, di, depth, scopeLineI, scopeLineO, i, o, lineI, lineO, atBol, indent, tabbed, lastSp, nlRun, seenAny, verdict>>
       ELSE IF IsTerm(h) THEN
            IF ti.k = "eof" THEN Stop("ood-parse")
            ELSE IF to.k = "eof" THEN (IF C9 THEN Stop("code-dropped") ELSE Stop("ood-c09"))
            ELSE Shift(h, ti, to)
       ELSE IF di <= Len(Der) /\ Der[di] \in PN /\ P[Der[di]].l = h
            THEN di' = di + 1 /\ stack' = P[Der[di]].r \o Tail(stack)
                 /\ UNCHANGED <<tid, depth, scopeLineI, scopeLineO, i, o, lineI, lineO, atBol, indent, tabbed, lastSp, nlRun, seenAny, verdict>>
            ELSE Stop("ood-parse")
Spec == Init /\ [][Step]_vars
Report == (verdict # "run") => PrintT(<<"VERDICT", tid, verdict, i, o, depth>>)
=============================================================================
