---------------------------- MODULE GenText ----------------------------
(* Enumerates every concatenation of at most MaxPieces pieces (byte strings). *)
EXTENDS Integers, Sequences, TLC, Json
CONSTANTS Pieces, MaxPieces
PiecesComp == << <<97>>, <<98>>, <<10>>, <<233>> >>       \* table char, repeated char, newline, non-table byte
VARIABLES s, n
Init == s = <<>> /\ n = 0
Next == n < MaxPieces /\ \E k \in 1..Len(Pieces) : s' = s \o Pieces[k] /\ n' = n + 1
Spec == Init /\ [][Next]_<<s, n>>
Emit == PrintT(ToJson([s |-> s]))
=============================================================================
