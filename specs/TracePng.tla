---------------------------- MODULE TracePng ----------------------------
(* Acceptor for a written .p8.png (C04; pixel clauses shared with C16).
   Layout of the 0x8000 + 1 data bytes carried by the pixels, in pixel order:
     gfx | map | gff | music | sfx (= cart memory 0x0000..0x42ff) | code area (0x3d00 bytes) | version
   Pixel k carries byte k in the two low bits of each channel: A = bits 7:6, R = 5:4, G = 3:2,
   B = 1:0; the upper six bits of every channel, and all of every pixel beyond the data, equal the
   label source pixel. The code area is either the raw text (NUL padded) or ":c:\0" len_hi len_lo
   0 0 stream (Compress format), and holds at most 0x3d00 bytes.
   Trace record: {focus, outcome: "ok" | "error", mem (0x4300 ints), code, version,
     rawLen, compLen (the implementation's own compressed size, for the fit rule),
     area (code-area bytes as found in the pixels, without trailing zero padding),
     pixels: [{i, r, g, b, a, lr, lg, lb, la}] (sampled; l* = label source pixel),
     rb: {checked, diff: [[addr, val]], code, version}}. *)
EXTENDS Integers, Sequences, FiniteSets, TLC, Json, IOUtils, TLCExt
Traces == JsonDeserialize(IOEnv.TRACE_FILE)
TableStr == <<10, 32, 48,49,50,51,52,53,54,55,56,57, 97,98,99,100,101,102,103,104,105,106,107,108,109,110,
              111,112,113,114,115,116,117,118,119,120,121,122, 33,35,37,40,41,123,125,91,93,60,62,43,61,47,42,58,59,46,44,126,95>>
VARIABLES tid, phase, k, p, out, verdict
vars == <<tid, phase, k, p, out, verdict>>
T == Traces[tid]
AreaSize == 15616
\* expected byte at data index i (0-based)
ByteAt(i) == IF i < 17152 THEN T.mem[i + 1]
             ELSE IF i < 32768 THEN (IF i - 17152 < Len(T.area) THEN T.area[i - 17152 + 1] ELSE 0)
             ELSE IF i = 32768 THEN T.version % 256 ELSE 0 - 1
Init == tid \in 1..Len(Traces) /\ phase = "outcome" /\ k = 1 /\ p = 9 /\ out = <<>> /\ verdict = "run"
Stop(v) == verdict' = v /\ UNCHANGED <<tid, phase, k, p, out>>
RECURSIVE CopyBytes(_, _, _)
CopyBytes(o, off, len) == IF len = 0 THEN o ELSE CopyBytes(Append(o, o[Len(o) - off + 1]), off, len - 1)
A == T.area
Text == T.code
Compressed == Len(A) >= 8 /\ SubSeq(A, 1, 4) = <<58, 99, 58, 0>>
DeclLen == A[5] * 256 + A[6]
\* the code fits iff its raw form or its compressed form (8 header bytes + stream) fits the area
Fits == T.rawLen <= AreaSize \/ T.compLen + 8 <= AreaSize
OutcomeStep ==
  IF T.outcome = "error" THEN (IF Fits THEN Stop("refused-fitting-cart") ELSE Stop("ok"))
  ELSE IF T.focus = "C04" /\ ~Fits THEN Stop("wrote-unfitting-cart")
  ELSE phase' = "pixels" /\ UNCHANGED <<tid, k, p, out, verdict>>
PixelStep ==
  IF k > Len(T.pixels) THEN
     (IF T.focus = "C16" THEN Stop("ok") ELSE phase' = "code" /\ UNCHANGED <<tid, k, p, out, verdict>>)
  ELSE LET px == T.pixels[k] b == ByteAt(px.i) IN
    IF px.i <= 32768 /\ (px.r % 4 # (b \div 16) % 4 \/ px.g % 4 # (b \div 4) % 4 \/ px.b % 4 # b % 4 \/ px.a % 4 # b \div 64)
       THEN Stop("pixel-bits")
    ELSE IF px.i > 32768 /\ <<px.r, px.g, px.b, px.a>> # <<px.lr, px.lg, px.lb, px.la>> THEN Stop("pixel-beyond-data")
    ELSE IF px.r \div 4 # px.lr \div 4 \/ px.g \div 4 # px.lg \div 4 \/ px.b \div 4 # px.lb \div 4 \/ px.a \div 4 # px.la \div 4
       THEN Stop("label-bits")
    ELSE k' = k + 1 /\ UNCHANGED <<tid, phase, p, out, verdict>>
ToRb == phase' = "readback" /\ UNCHANGED <<tid, k, p, out, verdict>>
CodeStep ==
  IF Len(A) > AreaSize THEN Stop("area-too-long")
  ELSE IF ~Compressed THEN
        \* raw: the text itself (it must not contain NUL, and the area is NUL padded)
        (IF A = Text THEN ToRb ELSE Stop("raw-mismatch"))
  ELSE IF A[7] # 0 \/ A[8] # 0 THEN Stop("header")
  ELSE IF DeclLen # Len(Text) THEN Stop("length-field")
  ELSE IF Len(out) >= DeclLen \/ p > Len(A) THEN
       (IF SubSeq(out, 1, IF Len(out) < DeclLen THEN Len(out) ELSE DeclLen) = Text THEN ToRb ELSE Stop("text-mismatch"))
  ELSE LET b == A[p] IN
    IF b = 0 THEN (IF p + 1 > Len(A) THEN Stop("truncated") ELSE out' = Append(out, A[p+1]) /\ p' = p + 2 /\ UNCHANGED <<tid, phase, k, verdict>>)
    ELSE IF b <= 59 THEN out' = Append(out, TableStr[b]) /\ p' = p + 1 /\ UNCHANGED <<tid, phase, k, verdict>>
    ELSE IF p + 1 > Len(A) THEN Stop("truncated")
    ELSE LET off == (b - 60) * 16 + (A[p+1] % 16)  len == (A[p+1] \div 16) + 2 IN
      IF off < 1 \/ off > Len(out) THEN Stop("bad-offset") ELSE IF len < 3 \/ len > 17 THEN Stop("bad-length")
      ELSE out' = CopyBytes(out, off, len) /\ p' = p + 2 /\ UNCHANGED <<tid, phase, k, verdict>>
\* ---- reading the file back: regions and version identical; code up to the reader's normalisation
\* (CR -> space, trailing newlines) ----
Norm(c) == [j \in 1..Len(c) |-> IF c[j] = 13 THEN 32 ELSE c[j]]
RECURSIVE StripNl(_)
StripNl(c) == IF c # <<>> /\ c[Len(c)] = 10 THEN StripNl(SubSeq(c, 1, Len(c) - 1)) ELSE c
RbStep ==
  IF ~T.rb.checked THEN Stop("ok")
  ELSE IF T.rb.diff # <<>> THEN Stop("readback-memory")
  ELSE IF T.rb.version # T.version % 256 THEN Stop("readback-version")
  ELSE IF StripNl(T.rb.code) # StripNl(Norm(Text)) THEN Stop("readback-code")
  ELSE Stop("ok")
Step == verdict = "run" /\ (CASE phase = "outcome" -> OutcomeStep [] phase = "pixels" -> PixelStep [] phase = "code" -> CodeStep [] OTHER -> RbStep)
Spec == Init /\ [][Step]_vars
Report == (verdict # "run") => PrintT(<<"VERDICT", tid, verdict, phase, k, p>>)
=============================================================================
