---------------------------- MODULE TracePng ----------------------------
(* C04/C16 acceptor for a written .p8.png: sampled pixels (index, RGBA, label RGBA) against the
   memory layout gfx|map|gff|music|sfx|code area|version and the 2-bit channel packing; the
   code area (bytes) against the :c: decoder / raw rule. *)
EXTENDS Integers, Sequences, FiniteSets, TLC, Json, IOUtils, TLCExt
Traces == JsonDeserialize(IOEnv.TRACE_FILE)
TableStr == <<10, 32, 48,49,50,51,52,53,54,55,56,57, 97,98,99,100,101,102,103,104,105,106,107,108,109,110,
              111,112,113,114,115,116,117,118,119,120,121,122, 33,35,37,40,41,123,125,91,93,60,62,43,61,47,42,58,59,46,44,126,95>>
VARIABLES tid, phase, k, p, out, verdict
vars == <<tid, phase, k, p, out, verdict>>
T == Traces[tid]
\* expected byte at picodata index i (0-based): regions from mem in cart order, then code area, then version
\* T.mem is in the ADDRESS order of cart memory, which is also the PNG order: gfx, map, gff, music, sfx
ByteAt(i) == IF i < 17152 THEN T.mem[i + 1]
             ELSE IF i < 32768 THEN (IF i - 17152 < Len(T.area) THEN T.area[i - 17152 + 1] ELSE 0)
             ELSE IF i = 32768 THEN T.version ELSE 0 - 1
Init == tid \in 1..Len(Traces) /\ phase = "pixels" /\ k = 1 /\ p = 9 /\ out = <<>> /\ verdict = "run"
Stop(v) == verdict' = v /\ UNCHANGED <<tid, phase, k, p, out>>
RECURSIVE CopyBytes(_, _, _)
CopyBytes(o, off, len) == IF len = 0 THEN o ELSE CopyBytes(Append(o, o[Len(o) - off + 1]), off, len - 1)
A == T.area
Text == T.code
Compressed == Len(A) >= 8 /\ SubSeq(A, 1, 4) = <<58, 99, 58, 0>>
DeclLen == A[5] * 256 + A[6]
PixelStep ==
  IF k > Len(T.pixels) THEN (IF T.focus = "C16" THEN Stop("ok") ELSE phase' = "code" /\ UNCHANGED <<tid, k, p, out, verdict>>)
  ELSE LET px == T.pixels[k] b == ByteAt(px.i) IN
    IF px.i <= 32768 /\ (px.r % 4 # (b \div 16) % 4 \/ px.g % 4 # (b \div 4) % 4 \/ px.b % 4 # b % 4 \/ px.a % 4 # b \div 64)
       THEN Stop("pixel-bits")
    ELSE IF px.i > 32768 /\ <<px.r, px.g, px.b, px.a>> # <<px.lr, px.lg, px.lb, px.la>> THEN Stop("pixel-beyond-data")
    ELSE IF px.r \div 4 # px.lr \div 4 \/ px.g \div 4 # px.lg \div 4 \/ px.b \div 4 # px.lb \div 4 \/ px.a \div 4 # px.la \div 4
       THEN Stop("label-bits")
    ELSE k' = k + 1 /\ UNCHANGED <<tid, phase, p, out, verdict>>
CodeStep ==
  IF Len(A) > 15616 THEN Stop("area-too-long")
  ELSE IF ~Compressed THEN
        LET z == {j \in 1..Len(A) : A[j] = 0} raw == IF z = {} THEN A ELSE SubSeq(A, 1, (CHOOSE j \in z : \A m \in z : j <= m) - 1) IN
          IF raw = Text THEN Stop("ok") ELSE Stop("raw-mismatch")
  ELSE IF A[7] # 0 \/ A[8] # 0 THEN Stop("header")
  ELSE IF DeclLen # Len(Text) THEN Stop("length-field")
  ELSE IF Len(out) >= DeclLen \/ p > Len(A) THEN
       (IF SubSeq(out, 1, IF Len(out) < DeclLen THEN Len(out) ELSE DeclLen) = Text THEN Stop("ok") ELSE Stop("text-mismatch"))
  ELSE LET b == A[p] IN
    IF b = 0 THEN out' = Append(out, A[p+1]) /\ p' = p + 2 /\ UNCHANGED <<tid, phase, k, verdict>>
    ELSE IF b <= 59 THEN out' = Append(out, TableStr[b]) /\ p' = p + 1 /\ UNCHANGED <<tid, phase, k, verdict>>
    ELSE LET off == (b - 60) * 16 + (A[p+1] % 16)  len == (A[p+1] \div 16) + 2 IN
      IF off < 1 \/ off > Len(out) THEN Stop("bad-offset") ELSE IF len < 3 THEN Stop("bad-length")
      ELSE out' = CopyBytes(out, off, len) /\ p' = p + 2 /\ UNCHANGED <<tid, phase, k, verdict>>
Step == verdict = "run" /\ (IF phase = "pixels" THEN PixelStep ELSE CodeStep)
Spec == Init /\ [][Step]_vars
Report == (verdict # "run") => PrintT(<<"VERDICT", tid, verdict, phase, k, p>>)
=============================================================================
