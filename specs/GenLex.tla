---------------------------- MODULE GenLex ----------------------------
(* Pipeline A for C07: TLC enumerates every concatenation of at most MaxPieces pieces and
   prints the token list the lexical grammar (P8Lex) dictates for it. *)
EXTENDS P8Lex, Json, TLCExt
CONSTANTS Pieces, MaxPieces
\* single characters chosen so that every operator prefix chain, numeral form, string/comment
\* opener and identifier class is present
PiecesChars == [k \in 1..23 |-> << <<62, 60, 61, 126, 33, 46, 45, 47, 91, 93, 58, 101, 120, 98, 48, 49, 97, 34, 92, 10, 32, 43, 200>>[k] >>]
PiecesCharsB == [k \in 1..16 |-> << <<39, 92, 110, 122, 48, 49, 53, 10, 120, 65, 32, 93, 91, 61, 13, 255>>[k] >>]
\* token spelling classes (DESIGN Appendix D) plus trivia
PiecesToks == <<
  <<43,61>>, <<45,61>>, <<42,61>>, <<47,61>>, <<37,61>>, <<46,46,61>>, <<61,61>>, <<126,61>>, <<33,61>>, <<60,61>>, <<62,61>>,
  <<38>>, <<124>>, <<94,94>>, <<126>>, <<60,60,62>>, <<62,62,62>>, <<62,62,60>>, <<60,60>>, <<62,62>>, <<92>>,
  <<43>>, <<45>>, <<42>>, <<47>>, <<37>>, <<94>>, <<35>>, <<64>>, <<36>>, <<60>>, <<62>>, <<61>>,
  <<40>>, <<41>>, <<123>>, <<125>>, <<91>>, <<93>>, <<59>>, <<58>>, <<44>>, <<46,46,46>>, <<46,46>>, <<46>>, <<58,58>>,
  <<97>>, <<95,49>>, <<200,122>>, <<122,57>>, <<101>>, <<120>>, <<63>>,
  <<49>>, <<49,46>>, <<46,53>>, <<49,46,53>>, <<48,120,49,102>>, <<48,88,46,56>>, <<48,98,49>>, <<49,101,53>>, <<49,69,45,53>>,
  <<34,115,34>>, <<39,115,39>>, <<91,91,115,93,93>>, <<91,61,91,115,93,61,93>>,
  <<97,110,100>>, <<101,110,100>>, <<110,111,116>>, <<110,105,108>>,
  <<58,58,108,58,58>>,
  <<45,45,99>>, <<47,47,99>>, <<45,45,91,91,99,93,93>>, <<32>>, <<9>>, <<10>>, <<13,10>> >>
PiecesChars18 == [k \in 1..18 |-> << <<62, 60, 61, 126, 46, 45, 47, 91, 93, 58, 101, 120, 48, 49, 97, 34, 10, 32>>[k] >>]
PiecesToksGlue == <<
  <<45>>, <<46>>, <<46,46>>, <<46,46,46>>, <<91>>, <<93>>, <<61>>, <<60>>, <<62>>, <<126>>, <<47>>, <<58>>, <<58,58>>, <<33,61>>,
  <<49>>, <<49,46>>, <<46,53>>, <<48,120,49,102>>, <<49,101,53>>, <<97>>, <<101>>, <<120>>, <<200>>,
  <<91,91,115,93,93>>, <<91,61,91,115,93,61,93>>, <<34,115,34>>, <<110,111,116>>, <<32>>, <<10>>, <<45,45,99>> >>
\* string-literal pieces: quote kinds, every escape form, digits after numeric escapes
PiecesStr == << <<39>>, <<34>>, <<92,120,52,49>>, <<92,120>>, <<92,122>>, <<92,48,54,53>>, <<92,54>>, <<53>>, <<97>>, <<32>>, <<10>>,
                <<92,10>>, <<92,34>>, <<92,92>>, <<92,110>>, <<92,42>>, <<200>> >>
VARIABLES s, n
vars == <<s, n>>
Init == s = <<>> /\ n = 0
Next == n < MaxPieces /\ \E k \in 1..Len(Pieces) : s' = s \o Pieces[k] /\ n' = n + 1
Spec == Init /\ [][Next]_vars
RECURSIVE LexAll(_, _)
LexAll(src, i) ==
  IF i > Len(src) THEN <<>>
  ELSE LET t == NextTok(src, i) IN
    IF t.k \in Bad THEN << [k |-> t.k, e |-> i, v |-> <<>>, line |-> 0, col |-> 0] >>
    ELSE << [k |-> t.k, e |-> t.e,
             v |-> IF t.k = "str" THEN (LET sv == StrValue(src, i, t.e) IN IF sv.ok THEN sv.v ELSE << 0 - 1 >>)
                   ELSE IF t.k = "num" THEN NumValue(src, i, t.e)
                   ELSE IF t.k = "com" THEN << ComEndAlt(src, i, t.e) >>
                   ELSE <<>>,
             line |-> NlCount(src, 1, i), col |-> i - 1 - LastNl(src, i)] >> \o LexAll(src, t.e)
Emit == PrintT(ToJson([s |-> s, toks |-> LexAll(s, 1)]))
=============================================================================
