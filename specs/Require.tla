---------------------------- MODULE Require ----------------------------
(* require() graph walk as implemented (Layer I): packages are keyed by the require string,
   resolved relative to the requiring file's directory, depth-first in source order. *)
EXTENDS Naturals, Sequences, FiniteSets, TLC, Json
CONSTANT MaxReq        \* requires per non-main file (main has up to 2)
Files == {"main", "p", "q", "sub/p", "sub/q"}          \* <name>.lua under the build root
Names == {"p", "q", "sub/q"}
Dir(f) == IF f \in {"sub/p", "sub/q"} THEN "sub" ELSE ""
Resolve(d, n) == IF d = "" THEN n ELSE d \o "/" \o n      \* default load path ?;?.lua
ReqSeqs == {<<>>} \cup {<<a>> : a \in Names} \cup {<<a, b>> : a \in Names, b \in Names}
VARIABLES exists, req
vars == <<exists, req>>
Init == /\ exists \in {E \in SUBSET Files : "main" \in E /\ "p" \in E}
        /\ req \in [Files -> ReqSeqs]
        /\ \A f \in Files \ {"main"} : Len(req[f]) <= MaxReq
        /\ \A f \in Files \ exists : req[f] = <<>>
        /\ req["sub/p"] = <<>>                              \* keep the space small
Next == UNCHANGED vars
Spec == Init /\ [][Next]_vars
\* st = [names |-> seq of bound names in insertion order, files |-> the file each is bound to, err |-> BOOLEAN]
RECURSIVE Visit(_, _, _)
Visit(f, k, st) ==
  IF st.err \/ k > Len(req[f]) THEN st
  ELSE LET n == req[f][k] IN
    IF \E j \in 1..Len(st.names) : st.names[j] = n THEN Visit(f, k + 1, st)
    ELSE LET g == Resolve(Dir(f), n) IN
      IF g \notin exists THEN [st EXCEPT !.err = TRUE]
      ELSE LET st1 == [names |-> Append(st.names, n), files |-> Append(st.files, g), err |-> FALSE]
               st2 == Visit(g, 1, st1)
           IN Visit(f, k + 1, st2)
Outcome == Visit("main", 1, [names |-> <<>>, files |-> <<>>, err |-> FALSE])
\* Layer P clauses on the modelled outcome: each name once; closed under requires; bindings plausible
Once == \A i, j \in 1..Len(Outcome.names) : Outcome.names[i] = Outcome.names[j] => i = j
Closed == ~Outcome.err =>
   \A f \in {"main"} \cup {Outcome.files[i] : i \in 1..Len(Outcome.files)} :
      \A k \in 1..Len(req[f]) : \E j \in 1..Len(Outcome.names) : Outcome.names[j] = req[f][k]
Emit == PrintT(ToJson([exists |-> exists, req |-> req, names |-> Outcome.names, files |-> Outcome.files, err |-> Outcome.err]))
=============================================================================
