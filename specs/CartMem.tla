---------------------------- MODULE CartMem ----------------------------
(* PICO-8 cart memory 0x0000..0x42ff and the documented semantics of picotool's section
   accessors. Memory = base pattern + sparse overrides, so states stay small at real geometry. *)
EXTENDS Integers, Sequences, FiniteSets, TLC, Json, Bitwise, Randomization
GFX == 0   MAPB == 8192   GFF == 12288   MUS == 12544   SFX == 12800   TOP == 17152
CONSTANTS BaseMul, BaseAdd     \* prior contents: an arbitrary but fixed pattern per run
Base(a) == (a * BaseMul + (a \div 64) * 13 + BaseAdd) % 256
VARIABLES ov, step, last, sid, first
vars == <<ov, step, last, sid, first>>
Rd(f, a) == IF a \in DOMAIN f THEN f[a] ELSE Base(a)
Wr(f, a, v) == [x \in (DOMAIN f) \cup {a} |-> IF x = a THEN v ELSE f[x]]
\* ---------------- gfx ----------------
PxAddr(px, py) == GFX + py * 64 + (px \div 2)
GetPx(f, px, py) == LET b == Rd(f, PxAddr(px, py)) IN IF px % 2 = 0 THEN b % 16 ELSE b \div 16
SetPx(f, px, py, v) == LET a == PxAddr(px, py) b == Rd(f, a) IN
   Wr(f, a, IF px % 2 = 0 THEN (b \div 16) * 16 + v ELSE (b % 16) + v * 16)
TRANSPARENT == 16
\* rows: sequence of sequences of colours 0..16; drawn left-aligned at tile id + offsets, clipped
RECURSIVE DrawRow(_, _, _, _, _)
DrawRow(f, row, k, x0, y) == IF k > Len(row) THEN f ELSE
   LET px == x0 + k - 1 IN
   DrawRow(IF row[k] = TRANSPARENT \/ px >= 128 \/ y >= 128 THEN f ELSE SetPx(f, px, y, row[k]), row, k + 1, x0, y)
RECURSIVE DrawRows(_, _, _, _, _)
DrawRows(f, rows, r, x0, y0) == IF r > Len(rows) THEN f ELSE DrawRows(DrawRow(f, rows[r], 1, x0, y0 + r - 1), rows, r + 1, x0, y0)
SetSpriteF(f, id, rows, xo, yo) == DrawRows(f, rows, 1, (id % 16) * 8 + xo, (id \div 16) * 8 + yo)
GetSpriteV(f, id, tw, th) ==
  [r \in 1..(th * 8) |-> [c \in 1..(tw * 8) |->
     LET px == (id % 16) * 8 + c - 1  py == (id \div 16) * 8 + r - 1 IN
       IF px >= 128 \/ py >= 128 THEN 0 ELSE GetPx(f, px, py)]]
\* ---------------- map (rows 32..63 alias gfx 0x1000..0x1fff) ----------------
CellAddr(x, y) == IF y <= 31 THEN MAPB + y * 128 + x ELSE GFX + 4096 + (y - 32) * 128 + x
RECURSIVE PutRect(_, _, _, _, _, _)
PutRect(f, rect, r, c, x, y) ==
  IF r > Len(rect) THEN f
  ELSE IF c > Len(rect[r]) THEN PutRect(f, rect, r + 1, 1, x, y)
  ELSE PutRect(IF x + c - 1 > 127 \/ y + r - 1 > 63 THEN f ELSE Wr(f, CellAddr(x + c - 1, y + r - 1), rect[r][c]),
               rect, r, c + 1, x, y)
GetRectV(f, x, y, w, h) == [r \in 1..h |-> [c \in 1..w |->
     IF x + c - 1 > 127 \/ y + r - 1 > 63 THEN 0 ELSE Rd(f, CellAddr(x + c - 1, y + r - 1))]]
\* ---------------- gff ----------------
\* ---------------- sfx notes: 16-bit word lsb,msb = w2 w1 pppppp | c eee vvv w3 ----------------
NoteAddr(id, n) == SFX + id * 68 + n * 2
GetNoteV(f, id, n) == LET lsb == Rd(f, NoteAddr(id, n)) msb == Rd(f, NoteAddr(id, n) + 1) IN
   << lsb % 64,
      (msb \div 128) * 8 + (msb % 2) * 4 + (lsb \div 64),
      (msb \div 2) % 8,
      (msb \div 16) % 8 >>
\* arg = -1 means "leave unchanged"
SetNoteF(f, id, n, p, w, v, e) ==
  LET old == GetNoteV(f, id, n)
      p2 == IF p < 0 THEN old[1] ELSE p   w2 == IF w < 0 THEN old[2] ELSE w
      v2 == IF v < 0 THEN old[3] ELSE v   e2 == IF e < 0 THEN old[4] ELSE e
      lsb == p2 + (w2 % 4) * 64
      msb == ((w2 \div 4) % 2) + v2 * 2 + e2 * 16 + (w2 \div 8) * 128
  IN Wr(Wr(f, NoteAddr(id, n), lsb), NoteAddr(id, n) + 1, msb)
\* ---------------- map pixels: tile 0 renders empty ----------------
GetRectPixelsV(f, x, y, w, h) == [pr \in 1..(h * 8) |-> [pc \in 1..(w * 8) |->
     LET r == ((pr - 1) \div 8) + 1  c == ((pc - 1) \div 8) + 1
         id == IF x + c - 1 > 127 \/ y + r - 1 > 63 THEN 0 ELSE Rd(f, CellAddr(x + c - 1, y + r - 1))
     IN IF id = 0 THEN 0 ELSE GetPx(f, (id % 16) * 8 + ((pc - 1) % 8), (id \div 16) * 8 + ((pr - 1) % 8))]]
\* ---------------- sfx properties: bytes 64..67 of a pattern ----------------
SfxPropV(f, id) == << Rd(f, SFX + id * 68 + 64), Rd(f, SFX + id * 68 + 65), Rd(f, SFX + id * 68 + 66), Rd(f, SFX + id * 68 + 67) >>
WrIf(f, a, v) == IF v < 0 THEN f ELSE Wr(f, a, v)
SetSfxPropF(f, id, m, d, ls, le) == WrIf(WrIf(WrIf(WrIf(f, SFX + id * 68 + 64, m), SFX + id * 68 + 65, d), SFX + id * 68 + 66, ls), SFX + id * 68 + 67, le)
\* ---------------- music: 4 bytes per pattern; low 7 bits channel (>63 = silent), bit 7 of bytes 0..2 = begin / end / stop ----------------
GetChannelV(f, id, ch) == LET p == Rd(f, MUS + id * 4 + ch) % 128 IN IF p > 63 THEN 0 - 1 ELSE p
\* pat = -1 means silent: any value 64..127 may be stored (the spec does not fix which); low 7 bits otherwise
SetChannelOK(f, f2, id, ch, pat) ==
   LET a == MUS + id * 4 + ch IN
   /\ \A x \in (DOMAIN f2) \cup (DOMAIN f) : x # a => Rd(f2, x) = Rd(f, x)
   /\ Rd(f2, a) \div 128 = Rd(f, a) \div 128
   /\ IF pat < 0 THEN Rd(f2, a) % 128 > 63 ELSE Rd(f2, a) % 128 = pat
SetChannelF(f, id, ch, pat) == LET a == MUS + id * 4 + ch IN Wr(f, a, (Rd(f, a) \div 128) * 128 + (IF pat < 0 THEN 65 + ch ELSE pat))
MusPropV(f, id) == << Rd(f, MUS + id * 4) \div 128, Rd(f, MUS + id * 4 + 1) \div 128, Rd(f, MUS + id * 4 + 2) \div 128 >>
SetBit7(f, a, v) == IF v < 0 THEN f ELSE Wr(f, a, (Rd(f, a) % 128) + v * 128)
SetMusPropF(f, id, b, e, s) == SetBit7(SetBit7(SetBit7(f, MUS + id * 4, b), MUS + id * 4 + 1, e), MUS + id * 4 + 2, s)
\* ---------------- operations (argument domains focus on the edges) ----------------
Ids == {0, 15, 16, 127, 128, 239, 240, 255}
Offs == {0, 1, 7, 8, 9}
Rows == { << <<1,2,3>> >>, << <<5>>, <<16,6>>, <<7,16,8,9,10,11,12,13,14>> >>,
          << <<15,15,15,15,15,15,15,15,15>>, <<>>, <<3>> >> , [r \in 1..9 |-> <<4, 16>>] }
Rects == { << <<1,2>> , <<3>> >>, << <<200,201,202>> >>, [r \in 1..3 |-> <<9>>] }
\* every operation as a record; Do(f, op) = [f |-> memory after, ret |-> return value]
OpSet ==
  {[n |-> "set_sprite", id |-> id, rows |-> rows, xo |-> xo, yo |-> yo] : id \in Ids, rows \in Rows, xo \in Offs, yo \in Offs} \cup
  {[n |-> "get_sprite", id |-> id, tw |-> tw, th |-> th] : id \in Ids, tw \in {1, 2}, th \in {1, 2}} \cup
  {[n |-> "set_cell", x |-> x, y |-> y, v |-> v] : x \in {0, 1, 3, 126, 127}, y \in {0, 31, 32, 62, 63}, v \in {0, 1, 255}} \cup
  {[n |-> "get_cell", x |-> x, y |-> y] : x \in {0, 127}, y \in {0, 31, 32, 63}} \cup
  {[n |-> "set_rect", rect |-> rect, x |-> x, y |-> y] : rect \in Rects, x \in {0, 125, 126, 127}, y \in {0, 30, 31, 61, 62, 63}} \cup
  {[n |-> "get_rect", x |-> x, y |-> y, w |-> w, h |-> h] : x \in {0, 126}, y \in {30, 61}, w \in {1, 3}, h \in {1, 3}} \cup
  {[n |-> nm, id |-> id, fl |-> fl] : nm \in {"set_flags", "clear_flags", "reset_flags", "get_flags"}, id \in {0, 255}, fl \in {1, 130, 255}} \cup
  {[n |-> "set_note", id |-> id, note |-> nt, p |-> p, w |-> w, v |-> v, e |-> e] :
        id \in {0, 63}, nt \in {0, 31}, p \in {0 - 1, 0, 63}, w \in {0 - 1, 5, 8, 15}, v \in {0 - 1, 7}, e \in {0 - 1, 0, 7}} \cup
  {[n |-> "get_note", id |-> id, note |-> nt] : id \in {0, 63}, nt \in {0, 31}} \cup
  {[n |-> "get_rect_pixels", x |-> x, y |-> y, w |-> w, h |-> h] : x \in {0, 126}, y \in {0, 31, 62}, w \in {1, 2}, h \in {1, 2}} \cup
  {[n |-> "sfx_set_properties", id |-> id, m |-> m, d |-> d, ls |-> ls, le |-> le] :
        id \in {0, 1, 63}, m \in {0 - 1, 1}, d \in {0 - 1, 0, 255}, ls \in {0 - 1, 63}, le \in {0 - 1, 0, 200}} \cup
  {[n |-> "sfx_get_properties", id |-> id] : id \in {0, 1, 63}} \cup
  {[n |-> "set_channel", id |-> id, ch |-> ch, pat |-> pat] : id \in {0, 63}, ch \in 0..3, pat \in {0 - 1, 0, 63}} \cup
  {[n |-> "get_channel", id |-> id, ch |-> ch] : id \in {0, 63}, ch \in 0..3} \cup
  {[n |-> "music_set_properties", id |-> id, b |-> b, e |-> e, s |-> s] : id \in {0, 62, 63}, b \in {0 - 1, 0, 1}, e \in {0 - 1, 0, 1}, s \in {0 - 1, 0, 1}} \cup
  {[n |-> "music_get_properties", id |-> id] : id \in {0, 62, 63}}
R(f, ret) == [f |-> f, ret |-> ret]
Do(f, op) ==
  CASE op.n = "set_sprite" -> R(SetSpriteF(f, op.id, op.rows, op.xo, op.yo), <<>>)
    [] op.n = "get_sprite" -> R(f, GetSpriteV(f, op.id, op.tw, op.th))
    [] op.n = "set_cell" -> R(Wr(f, CellAddr(op.x, op.y), op.v), <<>>)
    [] op.n = "get_cell" -> R(f, Rd(f, CellAddr(op.x, op.y)))
    [] op.n = "set_rect" -> R(PutRect(f, op.rect, 1, 1, op.x, op.y), <<>>)
    [] op.n = "get_rect" -> R(f, GetRectV(f, op.x, op.y, op.w, op.h))
    [] op.n = "set_flags" -> R(Wr(f, GFF + op.id, Rd(f, GFF + op.id) | op.fl), <<>>)
    [] op.n = "clear_flags" -> R(Wr(f, GFF + op.id, Rd(f, GFF + op.id) & (255 - op.fl)), <<>>)
    [] op.n = "reset_flags" -> R(Wr(f, GFF + op.id, op.fl), <<>>)
    [] op.n = "get_flags" -> R(f, Rd(f, GFF + op.id) & op.fl)
    [] op.n = "set_note" -> R(SetNoteF(f, op.id, op.note, op.p, op.w, op.v, op.e), <<>>)
    [] op.n = "get_note" -> R(f, GetNoteV(f, op.id, op.note))
    [] op.n = "get_rect_pixels" -> R(f, GetRectPixelsV(f, op.x, op.y, op.w, op.h))
    [] op.n = "sfx_set_properties" -> R(SetSfxPropF(f, op.id, op.m, op.d, op.ls, op.le), <<>>)
    [] op.n = "sfx_get_properties" -> R(f, SfxPropV(f, op.id))
    [] op.n = "set_channel" -> R(SetChannelF(f, op.id, op.ch, op.pat), <<>>)
    [] op.n = "get_channel" -> R(f, GetChannelV(f, op.id, op.ch))
    [] op.n = "music_set_properties" -> R(SetMusPropF(f, op.id, op.b, op.e, op.s), <<>>)
    [] op.n = "music_get_properties" -> R(f, MusPropV(f, op.id))
CONSTANTS MaxSteps, NSeq, Mode
Kinds == {o.n : o \in OpSet}
GetterOps == {o \in OpSet : o.n \in {"get_sprite", "get_cell", "get_rect", "get_flags", "get_note", "get_rect_pixels", "sfx_get_properties", "get_channel", "music_get_properties"}}
\* Mode "random": one random operation per step, the KIND drawn first (so getters are as frequent as the
\*   many-argument setters), then its arguments (RandomElement: exactly one successor, so a run prints
\*   NSeq histories of MaxSteps operations each).
\* Mode "rmr": read - modify - read: a random getter, a random operation, THE SAME getter again, then
\*   random operations (a value remembered from the first read must not survive the modification). In three of
\*   four histories the modification is drawn from those (of a random sample) that the model says change the getter's result.
\* the modifications that, by the model, change what the getter g returns in memory f (through whichever API:
\* a sprite read is changed by a map edit in the shared rows, a pixel rectangle by a sprite edit, ...)
Setters == OpSet \ GetterOps
Interfering(S, f, g) == LET base == Do(f, g).ret IN {o \in S : Do(Do(f, o).f, g).ret # base}
Next == /\ step < MaxSteps
        /\ \E k \in {RandomElement(Kinds)} :          \* (bound by \E: a LET would re-draw at every use)
           \* (the interfering set is computed once per history, over a random sample of 250 modifications)
           \E cand \in {IF Mode = "rmr" /\ step = 1 /\ sid % 4 # 0 THEN Interfering(RandomSubset(250, Setters), ov, first) ELSE {}} :
           \E op \in {IF Mode = "rmr" /\ step = 0 THEN RandomElement(GetterOps)
                        ELSE IF cand # {} THEN RandomElement(cand)
                        ELSE IF Mode = "rmr" /\ step = 2 THEN first
                        ELSE RandomElement({o \in OpSet : o.n = k})} :
           \E r \in {Do(ov, op)} :
             /\ ov' = r.f /\ step' = step + 1 /\ sid' = sid
             /\ first' = (IF step = 0 THEN op ELSE first)
             /\ last' = [op |-> op, ret |-> r.ret, ov |-> [a \in DOMAIN r.f |-> r.f[a]]]
Init == ov = <<>> /\ step = 0 /\ last = <<>> /\ sid \in 1..NSeq /\ first = <<>>
Spec == Init /\ [][Next]_vars
\* ---- the model's own laws, checked exhaustively over all operations for histories of length <= MaxSteps ----
MCNext == step < MaxSteps /\ \E op \in OpSet : \E r \in {Do(ov, op)} :
             /\ ov' = r.f /\ step' = step + 1 /\ sid' = sid /\ first' = first
             /\ last' = [op |-> op, ret |-> r.ret, ov |-> ov]          \* ov = memory BEFORE the op
MCSpec == Init /\ [][MCNext]_vars
Getters == {"get_sprite", "get_cell", "get_rect", "get_flags", "get_note", "get_rect_pixels", "sfx_get_properties", "get_channel", "music_get_properties"}
\* a getter changes nothing; a setter changes only addresses of its own region (map setters may touch aliased gfx)
RegionOf(a) == IF a < MAPB THEN "gfx" ELSE IF a < GFF THEN "map" ELSE IF a < MUS THEN "gff" ELSE IF a < SFX THEN "music" ELSE "sfx"
Allowed(n) == CASE n = "set_sprite" -> {"gfx"} [] n \in {"set_cell", "set_rect"} -> {"map", "gfx"}
                [] n \in {"set_flags", "clear_flags", "reset_flags"} -> {"gff"} [] n \in {"set_note", "sfx_set_properties"} -> {"sfx"}
                [] n \in {"set_channel", "music_set_properties"} -> {"music"} [] OTHER -> {}
Changed(f, g) == {a \in (DOMAIN f) \cup (DOMAIN g) : Rd(f, a) # Rd(g, a)}
FrameLaw == step > 0 => \A a \in Changed(last.ov, ov) : a >= 0 /\ a < TOP /\ RegionOf(a) \in Allowed(last.op.n)
\* a map setter touches gfx memory only in the shared half (0x1000..0x1fff)
AliasLaw == step > 0 /\ last.op.n \in {"set_cell", "set_rect"} => \A a \in Changed(last.ov, ov) : a >= 4096
\* read-after-write: a cell / flag byte just set reads back
ReadAfterWrite == step > 0 =>
   /\ (last.op.n = "set_cell" => Rd(ov, CellAddr(last.op.x, last.op.y)) = last.op.v)
   /\ (last.op.n = "reset_flags" => Rd(ov, GFF + last.op.id) = last.op.fl)
   /\ (last.op.n = "set_note" /\ last.op.p >= 0 => GetNoteV(ov, last.op.id, last.op.note)[1] = last.op.p)
   /\ (last.op.n = "set_note" /\ last.op.w >= 0 => GetNoteV(ov, last.op.id, last.op.note)[2] = last.op.w)
Emit == step > 0 => PrintT(ToJson([sid |-> sid, step |-> step, op |-> last.op, ret |-> last.ret, ov |-> last.ov]))
=============================================================================
