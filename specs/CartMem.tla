---------------------------- MODULE CartMem ----------------------------
(* PICO-8 cart memory 0x0000..0x42ff and the documented semantics of picotool's section
   accessors. Memory = base pattern + sparse overrides, so states stay small at real geometry. *)
EXTENDS Integers, Sequences, FiniteSets, TLC, Json, Bitwise
GFX == 0   MAPB == 8192   GFF == 12288   MUS == 12544   SFX == 12800   TOP == 17152
Base(a) == (a * 37 + 11) % 256
VARIABLES ov, step, last
vars == <<ov, step, last>>
Rd(f, a) == IF a \in DOMAIN f THEN f[a] ELSE Base(a)
Wr(f, a, v) == [x \in (DOMAIN f) \cup {a} |-> IF x = a THEN v ELSE f[x]]
\* ---------------- gfx ----------------
PxAddr(px, py) == GFX + py * 64 + (px \div 2)
GetPx(f, px, py) == LET b == Rd(f, PxAddr(px, py)) IN IF px % 2 = 0 THEN b % 16 ELSE b \div 16
SetPx(f, px, py, v) == LET a == PxAddr(px, py) b == Rd(f, a) IN
   Wr(f, a, IF px % 2 = 0 THEN (b \div 16) * 16 + v ELSE (b % 16) + v * 16)
TRANSPARENT == 16
\* rows: sequence of sequences of colours 0..16; drawn left-aligned at tile id + offsets, clipped
RECURSIVE DrawRow(_, _, _, _, _)
DrawRow(f, row, k, x0, y) == IF k > Len(row) THEN f ELSE
   LET px == x0 + k - 1 IN
   DrawRow(IF row[k] = TRANSPARENT \/ px >= 128 \/ y >= 128 THEN f ELSE SetPx(f, px, y, row[k]), row, k + 1, x0, y)
RECURSIVE DrawRows(_, _, _, _, _)
DrawRows(f, rows, r, x0, y0) == IF r > Len(rows) THEN f ELSE DrawRows(DrawRow(f, rows[r], 1, x0, y0 + r - 1), rows, r + 1, x0, y0)
SetSpriteF(f, id, rows, xo, yo) == DrawRows(f, rows, 1, (id % 16) * 8 + xo, (id \div 16) * 8 + yo)
GetSpriteV(f, id, tw, th) ==
  [r \in 1..(th * 8) |-> [c \in 1..(tw * 8) |->
     LET px == (id % 16) * 8 + c - 1  py == (id \div 16) * 8 + r - 1 IN
       IF px >= 128 \/ py >= 128 THEN 0 ELSE GetPx(f, px, py)]]
\* ---------------- map (rows 32..63 alias gfx 0x1000..0x1fff) ----------------
CellAddr(x, y) == IF y <= 31 THEN MAPB + y * 128 + x ELSE GFX + 4096 + (y - 32) * 128 + x
RECURSIVE PutRect(_, _, _, _, _, _)
PutRect(f, rect, r, c, x, y) ==
  IF r > Len(rect) THEN f
  ELSE IF c > Len(rect[r]) THEN PutRect(f, rect, r + 1, 1, x, y)
  ELSE PutRect(IF x + c - 1 > 127 \/ y + r - 1 > 63 THEN f ELSE Wr(f, CellAddr(x + c - 1, y + r - 1), rect[r][c]),
               rect, r, c + 1, x, y)
GetRectV(f, x, y, w, h) == [r \in 1..h |-> [c \in 1..w |->
     IF x + c - 1 > 127 \/ y + r - 1 > 63 THEN 0 ELSE Rd(f, CellAddr(x + c - 1, y + r - 1))]]
\* ---------------- gff ----------------
\* ---------------- sfx notes: 16-bit word lsb,msb = w2 w1 pppppp | c eee vvv w3 ----------------
NoteAddr(id, n) == SFX + id * 68 + n * 2
GetNoteV(f, id, n) == LET lsb == Rd(f, NoteAddr(id, n)) msb == Rd(f, NoteAddr(id, n) + 1) IN
   << lsb % 64,
      (msb \div 128) * 8 + (msb % 2) * 4 + (lsb \div 64),
      (msb \div 2) % 8,
      (msb \div 16) % 8 >>
\* arg = -1 means "leave unchanged"
SetNoteF(f, id, n, p, w, v, e) ==
  LET old == GetNoteV(f, id, n)
      p2 == IF p < 0 THEN old[1] ELSE p   w2 == IF w < 0 THEN old[2] ELSE w
      v2 == IF v < 0 THEN old[3] ELSE v   e2 == IF e < 0 THEN old[4] ELSE e
      lsb == p2 + (w2 % 4) * 64
      msb == ((w2 \div 4) % 2) + v2 * 2 + e2 * 16 + (w2 \div 8) * 128
  IN Wr(Wr(f, NoteAddr(id, n), lsb), NoteAddr(id, n) + 1, msb)
\* ---------------- operations (argument domains focus on the edges) ----------------
Ids == {0, 15, 16, 127, 239, 240, 255}
Offs == {0, 1, 7, 8, 9}
Rows == { << <<1,2,3>> >>, << <<5>>, <<16,6>>, <<7,16,8,9,10,11,12,13,14>> >>,
          << <<15,15,15,15,15,15,15,15,15>>, <<>>, <<3>> >> , [r \in 1..9 |-> <<4, 16>>] }
Rects == { << <<1,2>> , <<3>> >>, << <<200,201,202>> >>, [r \in 1..3 |-> <<9>>] }
Op(rec, f2, ret) == /\ ov' = f2 /\ step' = step + 1
                    /\ last' = [op |-> rec, ret |-> ret, ov |-> [a \in DOMAIN f2 |-> f2[a]]]
Next ==
  \/ \E id \in Ids, rows \in Rows, xo \in Offs, yo \in Offs :
        Op([n |-> "set_sprite", id |-> id, rows |-> rows, xo |-> xo, yo |-> yo], SetSpriteF(ov, id, rows, xo, yo), <<>>)
  \/ \E id \in Ids, tw \in {1, 2}, th \in {1, 2} :
        Op([n |-> "get_sprite", id |-> id, tw |-> tw, th |-> th], ov, GetSpriteV(ov, id, tw, th))
  \/ \E x \in {0, 1, 126, 127}, y \in {0, 31, 32, 62, 63}, v \in {0, 1, 255} :
        Op([n |-> "set_cell", x |-> x, y |-> y, v |-> v], Wr(ov, CellAddr(x, y), v), <<>>)
  \/ \E x \in {0, 127}, y \in {0, 31, 32, 63} :
        Op([n |-> "get_cell", x |-> x, y |-> y], ov, Rd(ov, CellAddr(x, y)))
  \/ \E rect \in Rects, x \in {0, 125, 126, 127}, y \in {0, 30, 31, 61, 62, 63} :
        Op([n |-> "set_rect", rect |-> rect, x |-> x, y |-> y], PutRect(ov, rect, 1, 1, x, y), <<>>)
  \/ \E x \in {0, 126}, y \in {30, 61}, w \in {1, 3}, h \in {1, 3} :
        Op([n |-> "get_rect", x |-> x, y |-> y, w |-> w, h |-> h], ov, GetRectV(ov, x, y, w, h))
  \/ \E id \in {0, 255}, fl \in {1, 130, 255} :
        \/ Op([n |-> "set_flags", id |-> id, fl |-> fl], Wr(ov, GFF + id, Rd(ov, GFF + id) | fl), <<>>)
        \/ Op([n |-> "clear_flags", id |-> id, fl |-> fl], Wr(ov, GFF + id, Rd(ov, GFF + id) & (255 - fl)), <<>>)
        \/ Op([n |-> "reset_flags", id |-> id, fl |-> fl], Wr(ov, GFF + id, fl), <<>>)
        \/ Op([n |-> "get_flags", id |-> id, fl |-> fl], ov, Rd(ov, GFF + id) & fl)
  \/ \E id \in {0, 63}, nt \in {0, 31}, p \in {0 - 1, 0, 63}, w \in {0 - 1, 5, 8, 15}, v \in {0 - 1, 7}, e \in {0 - 1, 0, 7} :
        Op([n |-> "set_note", id |-> id, note |-> nt, p |-> p, w |-> w, v |-> v, e |-> e], SetNoteF(ov, id, nt, p, w, v, e), <<>>)
  \/ \E id \in {0, 63}, nt \in {0, 31} :
        Op([n |-> "get_note", id |-> id, note |-> nt], ov, GetNoteV(ov, id, nt))
Init == ov = <<>> /\ step = 0 /\ last = <<>>
Spec == Init /\ [][Next]_vars
Emit == step > 0 => PrintT(ToJson([step |-> step, op |-> last.op, ret |-> last.ret, ov |-> last.ov]))
=============================================================================
