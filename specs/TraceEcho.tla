---------------------------- MODULE TraceEcho ----------------------------
(* C06 acceptor: the default writer's output equals the source byte for byte outside string
   literals and denotes the same byte string inside each one; both streams end together. *)
EXTENDS P8Lex, Json, IOUtils, TLCExt
Traces == JsonDeserialize(IOEnv.TRACE_FILE)
VARIABLES tid, i, o, verdict
vars == <<tid, i, o, verdict>>
Src == Traces[tid].src
Out == Traces[tid].out
Init == tid \in 1..Len(Traces) /\ i = 1 /\ o = 1 /\ verdict = "run"
Stop(v) == verdict' = v /\ UNCHANGED <<tid, i, o>>
Step ==
  /\ verdict = "run"
  /\ IF i > Len(Src) /\ o > Len(Out) THEN Stop("ok")
     ELSE IF i > Len(Src) THEN Stop("output-longer")
     ELSE LET ti == NextTok(Src, i) IN
       IF ti.k \in Bad THEN Stop("ood")
       ELSE IF ti.k = "str" /\ ~StrValue(Src, i, ti.e).ok THEN Stop("ood")
       ELSE IF o > Len(Out) THEN Stop("output-shorter")
       ELSE LET to == NextTok(Out, o) IN
         IF to.k \in Bad THEN Stop("lex-out")
         ELSE IF ti.k # to.k THEN Stop("kind")
         ELSE IF ti.k # "str" THEN
            (IF SubSeq(Src, i, ti.e - 1) = SubSeq(Out, o, to.e - 1)
             THEN i' = ti.e /\ o' = to.e /\ UNCHANGED <<tid, verdict>> ELSE Stop("bytes"))
         ELSE LET va == StrValue(Src, i, ti.e) vb == StrValue(Out, o, to.e) IN
            IF vb.ok /\ va.v = vb.v THEN i' = ti.e /\ o' = to.e /\ UNCHANGED <<tid, verdict>>
            ELSE Stop("strval")
Spec == Init /\ [][Step]_vars
Report == (verdict # "run") => PrintT(<<"VERDICT", tid, verdict, i, o>>)
=============================================================================
