---------------------------- MODULE TraceEcho ----------------------------
(* C06 acceptor: the default writer's output equals the source byte for byte outside string
   literals and denotes the same byte string inside each one; both streams end together. *)
EXTENDS P8Lex, Json, IOUtils, TLCExt
Traces == JsonDeserialize(IOEnv.TRACE_FILE)
VARIABLES tid, i, o, verdict
vars == <<tid, i, o, verdict>>
Src == Traces[tid].src
Out == Traces[tid].out
T == Traces[tid]
Init == tid \in 1..Len(Traces) /\ i = 1 /\ o = 1 /\ verdict = "run"
Stop(v) == verdict' = v /\ UNCHANGED <<tid, i, o>>
Step ==
  /\ verdict = "run"
  /\ IF i > Len(Src) /\ o > Len(Out) THEN Stop("ok")
     ELSE IF i > Len(Src) THEN Stop("output-longer")
     ELSE LET ti == NextTok(Src, i) IN
       IF ti.k \in Bad THEN
          \* the reference cannot tokenise this source (outside the dialect). The token list reported by
          \* the implementation must still tile the source, and every token that is not a string
          \* literal must be echoed byte for byte (itoks: [kind, srcStart, srcEnd, outStart, outEnd], 1-based, end exclusive)
          (IF T.itoks = <<>> THEN Stop("ood")
           ELSE IF T.itoks[1][2] # 1 \/ T.itoks[Len(T.itoks)][3] # Len(Src) + 1 THEN Stop("tiling")
           ELSE IF \E n \in 1..(Len(T.itoks) - 1) : T.itoks[n][3] # T.itoks[n + 1][2] THEN Stop("tiling")
           ELSE IF \E n \in 1..Len(T.itoks) : T.itoks[n][1] # "str" /\
                     SubSeq(Src, T.itoks[n][2], T.itoks[n][3] - 1) # SubSeq(Out, T.itoks[n][4], T.itoks[n][5] - 1) THEN Stop("bytes")
           ELSE Stop("ok-by-impl-tokens"))
       ELSE IF ti.k = "str" /\ ~StrValue(Src, i, ti.e).ok THEN Stop("ood")
       ELSE IF o > Len(Out) THEN Stop("output-shorter")
       ELSE LET to == NextTok(Out, o) IN
         IF to.k \in Bad THEN Stop("lex-out")
         ELSE IF ti.k # to.k THEN Stop("kind")
         ELSE IF ti.k # "str" THEN
            (IF SubSeq(Src, i, ti.e - 1) = SubSeq(Out, o, to.e - 1)
             THEN i' = ti.e /\ o' = to.e /\ UNCHANGED <<tid, verdict>> ELSE Stop("bytes"))
         ELSE LET va == StrValue(Src, i, ti.e) vb == StrValue(Out, o, to.e) IN
            IF vb.ok /\ va.v = vb.v THEN i' = ti.e /\ o' = to.e /\ UNCHANGED <<tid, verdict>>
            ELSE Stop("strval")
Spec == Init /\ [][Step]_vars
Report == (verdict # "run") => PrintT(<<"VERDICT", tid, verdict, i, o>>)
=============================================================================
