---------------------------- MODULE TraceSyn ----------------------------
EXTENDS LuaSyntax, Json, IOUtils, TLCExt
Traces == JsonDeserialize(IOEnv.TRACE_FILE)
VARIABLES tid, stack, ti, di, depth, scopeLine, verdict
vars == <<tid, stack, ti, di, depth, scopeLine, verdict>>
Toks == Traces[tid].toks     \* significant tokens [k, t, line]
Der == Traces[tid].deriv
Init == /\ tid \in 1..Len(Traces) /\ stack = <<"chunk">> /\ ti = 1 /\ di = 1 /\ depth = 0
        /\ scopeLine = <<>> /\ verdict = "run"
Fail(why) == verdict' = why /\ UNCHANGED <<tid, stack, ti, di, depth, scopeLine>>
IsSemi(i) == i <= Len(Toks) /\ Toks[i].k = "sym" /\ Toks[i].t = ";"
Step ==
  /\ verdict = "run"
  /\ IF stack = <<>> THEN
        IF ti = Len(Toks) + 1 /\ di = Len(Der) + 1 THEN verdict' = "ok" /\ UNCHANGED <<tid, stack, ti, di, depth, scopeLine>>
        ELSE Fail("leftover")
     ELSE LET h == Head(stack) IN
       IF h = "+" THEN depth' = depth + 1 /\ stack' = Tail(stack) /\ UNCHANGED <<tid, ti, di, scopeLine, verdict>>
       ELSE IF h = "-" THEN depth' = depth - 1 /\ stack' = Tail(stack) /\ UNCHANGED <<tid, ti, di, scopeLine, verdict>>
       ELSE IF h = "<" THEN \* scope opens at next token's line
            /\ ti <= Len(Toks)
            /\ scopeLine' = <<Toks[ti].line>> \o scopeLine /\ stack' = Tail(stack) /\ UNCHANGED <<tid, ti, di, depth, verdict>>
       ELSE IF h = ">" THEN \* scope closes: next token (if any) must be on a later line
            IF ti <= Len(Toks) /\ Toks[ti].line <= Head(scopeLine) /\ Len(scopeLine) = 1 THEN Fail("scope-end")
            ELSE scopeLine' = Tail(scopeLine) /\ stack' = Tail(stack) /\ UNCHANGED <<tid, ti, di, depth, verdict>>
       ELSE IF h = "SB" THEN
            IF IsSemi(ti) THEN ti' = ti + 1 /\ UNCHANGED <<tid, stack, di, depth, scopeLine, verdict>>
            ELSE stack' = Tail(stack) /\ UNCHANGED <<tid, ti, di, depth, scopeLine, verdict>>
       ELSE IF IsTerm(h) THEN
            IF ti <= Len(Toks) /\ Matches(h, Toks[ti]) /\ (scopeLine = <<>> \/ Toks[ti].line = Head(scopeLine))
            THEN ti' = ti + 1 /\ stack' = Tail(stack) /\ UNCHANGED <<tid, di, depth, scopeLine, verdict>>
            ELSE Fail("shift")
       ELSE \* nonterminal: next derivation event must expand it
            IF di <= Len(Der) /\ Der[di] \in PN /\ P[Der[di]].l = h
            THEN di' = di + 1 /\ stack' = P[Der[di]].r \o Tail(stack) /\ UNCHANGED <<tid, ti, depth, scopeLine, verdict>>
            ELSE Fail("expand")
Spec == Init /\ [][Step]_vars
Report == (verdict # "run") => PrintT(<<"VERDICT", tid, verdict, ti, di>>)
=============================================================================
