---------------------------- MODULE TraceRename ----------------------------
(* C02 acceptor at the unit level: a history of (identifier in, identifier out) pairs recorded
   from one name factory, judged by the Layer P renaming clauses (one call per step).
   Trace record: {calls: [{in, out}], keepFile: [bytes of the --keep-names-from-file file, or empty], keepAll,
   builtins: [[..]]}. Which names the file lists is decided here (P8Names!Listed), not by the code under test. *)
EXTENDS P8Names, Json, IOUtils, TLCExt
Traces == JsonDeserialize(IOEnv.TRACE_FILE)
VARIABLES tid, k, fwd, bwd, verdict
vars == <<tid, k, fwd, bwd, verdict>>
T == Traces[tid]
InKeep(x) == Listed(x, T.keepFile)
Reserved == CoreReserved \cup {T.builtins[j] : j \in 1..Len(T.builtins)}
Init == tid \in 1..Len(Traces) /\ k = 1 /\ fwd = <<>> /\ bwd = <<>> /\ verdict = "run"
Stop(v) == verdict' = v /\ UNCHANGED <<tid, k, fwd, bwd>>
\* fwd / bwd are functions over byte sequences (in -> out, out -> in)
Put(f, a, b) == [x \in (DOMAIN f) \cup {a} |-> IF x = a THEN b ELSE f[x]]
Step ==
  /\ verdict = "run"
  /\ IF k > Len(T.calls) THEN Stop("ok")
     ELSE LET x == T.calls[k].in y == T.calls[k].out IN
       IF x \in DOMAIN fwd /\ fwd[x] # y THEN Stop("rename-consistent")
       ELSE IF y \in DOMAIN bwd /\ bwd[y] # x THEN Stop("rename-injective")
       ELSE IF (T.keepAll \/ x \in Reserved \/ InKeep(x)) /\ y # x THEN Stop("rename-kept")
       ELSE IF y # x /\ (y \in Reserved \/ InKeep(y) \/ ~IsIdent(y) \/ y \in Keywords) THEN Stop("rename-generated")
       ELSE /\ k' = k + 1
            /\ fwd' = (IF x \in DOMAIN fwd THEN fwd ELSE Put(fwd, x, y))
            /\ bwd' = (IF y \in DOMAIN bwd THEN bwd ELSE Put(bwd, y, x))
            /\ UNCHANGED <<tid, verdict>>
Spec == Init /\ [][Step]_vars
Report == (verdict # "run") => PrintT(<<"VERDICT", tid, verdict, k>>)
=============================================================================
