---------------------------- MODULE P8Names ----------------------------
(* Identifier classes used by the renaming clauses (C02). *)
EXTENDS P8Lex
\* names that are certainly reserved, written out from the PICO-8 manual's function index
\* (independent of the code; the code's own list only ever widens the set, see T.builtins)
\* print _init _update _draw _update60 ? btn btnp spr sfx music peek poke add del foreach all pairs rnd flr cls map mget mset pset pget rect rectfill circ circfill line color camera sin cos atan2 sqrt abs min max mid sub tostr tonum time stat pal fget fset sget sset memcpy memset
CoreReserved == Keywords \cup {
   <<112,114,105,110,116>>, <<95,105,110,105,116>>, <<95,117,112,100,97,116,101>>, <<95,100,114,97,119>>, 
   <<95,117,112,100,97,116,101,54,48>>, <<63>>, <<98,116,110>>, <<98,116,110,112>>, <<115,112,114>>, 
   <<115,102,120>>, <<109,117,115,105,99>>, <<112,101,101,107>>, <<112,111,107,101>>, <<97,100,100>>, 
   <<100,101,108>>, <<102,111,114,101,97,99,104>>, <<97,108,108>>, <<112,97,105,114,115>>, <<114,110,100>>, 
   <<102,108,114>>, <<99,108,115>>, <<109,97,112>>, <<109,103,101,116>>, <<109,115,101,116>>, 
   <<112,115,101,116>>, <<112,103,101,116>>, <<114,101,99,116>>, <<114,101,99,116,102,105,108,108>>, 
   <<99,105,114,99>>, <<99,105,114,99,102,105,108,108>>, <<108,105,110,101>>, <<99,111,108,111,114>>, 
   <<99,97,109,101,114,97>>, <<115,105,110>>, <<99,111,115>>, <<97,116,97,110,50>>, <<115,113,114,116>>, 
   <<97,98,115>>, <<109,105,110>>, <<109,97,120>>, <<109,105,100>>, <<115,117,98>>, <<116,111,115,116,114>>, 
   <<116,111,110,117,109>>, <<116,105,109,101>>, <<115,116,97,116>>, <<112,97,108>>, <<102,103,101,116>>, 
   <<102,115,101,116>>, <<115,103,101,116>>, <<115,115,101,116>>, <<109,101,109,99,112,121>>, 
   <<109,101,109,115,101,116>> }
IsIdent(w) == Len(w) >= 1 /\ w[1] \in Alpha /\ \A k \in 1..Len(w) : w[k] \in AlNum
\* --keep-names-from-file: a text file, one name per line. The identifier x is *listed* in file f (bytes) when some line
\* of f consists of x, possibly surrounded by blanks (space, tab, CR, VT, FF). Nothing else about the file's format
\* is assumed (comment and empty lines list nothing, since no identifier equals them).
KBlank == {32, 9, 13, 11, 12}
Listed(x, f) ==
  /\ Len(x) >= 1
  /\ \E a \in 1..(Len(f) - Len(x) + 1) :
       /\ \A j \in 1..Len(x) : f[a + j - 1] = x[j]
       /\ \A p \in 1..(a - 1) : (\A q \in p..(a - 1) : f[q] # 10) => f[p] \in KBlank
       /\ LET e == a + Len(x) IN \A p \in e..Len(f) : (\A q \in e..p : f[q] # 10) => f[p] \in KBlank
=============================================================================
