---------------------------- MODULE TraceFileWrite ----------------------------
(* Layer P acceptor for C11: one recorded cart write with (possibly) an injected failure.
   Observations: dest0 ("absent" | "old"), the audit events on the destination path in order
   ({e: "open", mode: "r" | "w"}), the point where production failed ({e: "fail", src, k}) if it
   did, whether the call raised, and the destination afterwards ("absent" | "old" | "new" |
   "other", decided by byte snapshots).
   A failure while producing the cart must leave the destination exactly as it was, and the
   destination must not have been opened for writing before production succeeded. *)
EXTENDS Integers, Sequences, FiniteSets, TLC, Json, IOUtils, TLCExt
Traces == JsonDeserialize(IOEnv.TRACE_FILE)
VARIABLES tid, k, dest, failed, verdict
vars == <<tid, k, dest, failed, verdict>>
T == Traces[tid]
Init == tid \in 1..Len(Traces) /\ k = 1 /\ dest = T.dest0 /\ failed = FALSE /\ verdict = "run"
Stop(v) == verdict' = v /\ UNCHANGED <<tid, k, dest, failed>>
Step ==
  /\ verdict = "run"
  /\ IF k > Len(T.events) THEN
        \* (mustFail: the Lua writer was made to emit code that does not parse - "the transformed code does not re-parse" -
        \*  so producing the cart has to fail)
        (IF "mustFail" \in DOMAIN T /\ T.mustFail /\ ~(failed \/ T.raised) THEN Stop("unparsable-code-written")
         ELSE IF failed \/ T.raised THEN
             (IF T.destAfter # T.dest0 THEN Stop("destination-damaged")
              ELSE IF dest # T.dest0 THEN Stop("destination-opened-before-success")
              ELSE Stop("ok"))
         ELSE IF T.destAfter # "new" THEN Stop("success-without-new-file")
         ELSE Stop("ok"))
     ELSE LET ev == T.events[k] IN
       IF ev.e = "open" /\ ev.mode = "w" THEN
            (IF failed THEN Stop("destination-opened-after-failure")
             ELSE dest' = "truncated" /\ k' = k + 1 /\ UNCHANGED <<tid, failed, verdict>>)
       ELSE IF ev.e = "fail" THEN
            (IF dest # T.dest0 THEN Stop("destination-opened-before-success")
             ELSE failed' = TRUE /\ k' = k + 1 /\ UNCHANGED <<tid, dest, verdict>>)
       ELSE k' = k + 1 /\ UNCHANGED <<tid, dest, failed, verdict>>
Spec == Init /\ [][Step]_vars
Report == (verdict # "run") => PrintT(<<"VERDICT", tid, verdict, k>>)
=============================================================================
