---------------------------- MODULE Include ----------------------------
(* #include splicing. A cart's code is a sequence of line ids (strings). Targets:
   "L"  a .lua file with lines L1 L2 (final newline or not is a harness dimension),
   "C"  a .p8 cart with tabs: tab0 = C1 ; tab1 = C2 C3 ; tab2 = (empty) -- separators "-->8"
        and an #include line of its own inside tab 1 (must NOT be expanded),
   "P"  a .p8.png cart with one tab P1 P2.
   Include item = [t |-> target, tab |-> -1 (none) | n]. *)
EXTENDS Integers, Sequences, FiniteSets, TLC, Json
CONSTANTS MaxLines
TargetLines == [t \in {"L", "C", "P"} |->
   CASE t = "L" -> <<"L1", "L2">>
     [] t = "C" -> <<"C1", "-->8", "C2", "#include L.lua", "C3", "-->8">>
     [] t = "P" -> <<"P1", "P2">>]
\* lines of tab n: lines strictly between the n-th and (n+1)-th separator (0-based), separators excluded
RECURSIVE TabFrom(_, _, _, _)
TabFrom(ls, k, cur, n) == IF k > Len(ls) THEN <<>>
   ELSE IF ls[k] = "-->8" THEN TabFrom(ls, k + 1, cur + 1, n)
   ELSE (IF cur = n THEN <<ls[k]>> ELSE <<>>) \o TabFrom(ls, k + 1, cur, n)
Lines(item) == IF item.tab < 0 THEN TargetLines[item.t] ELSE TabFrom(TargetLines[item.t], 1, 0, item.tab)
\* a .lua target has no tabs (a :n selector on it is outside the statement); carts take none or 0..T+1
Items == {[k |-> "plain", t |-> "", tab |-> 0 - 1, dir |-> ""]} \cup
         {[k |-> "inc", t |-> "L", tab |-> 0 - 1, dir |-> d] : d \in {"", "sub"}} \cup
         {[k |-> "inc", t |-> t, tab |-> n, dir |-> d] : t \in {"C", "P"}, n \in {0 - 1, 0, 1, 2, 3}, d \in {"", "sub"}} \cup
         {[k |-> "inc", t |-> "missing", tab |-> 0 - 1, dir |-> ""]}
VARIABLE cart
Init == cart = <<>>
Next == Len(cart) < MaxLines /\ \E it \in Items : cart' = Append(cart, it)
Spec == Init /\ [][Next]_cart
RECURSIVE Splice(_, _)
Splice(c, k) == IF k > Len(c) THEN <<>>
   ELSE (IF c[k].k = "plain" THEN << "M" >> ELSE Lines(c[k])) \o Splice(c, k + 1)
Fails == \E k \in 1..Len(cart) : cart[k].k = "inc" /\ cart[k].t = "missing"
Emit == PrintT(ToJson([cart |-> cart, fails |-> Fails, expect |-> IF Fails THEN <<>> ELSE Splice(cart, 1)]))
=============================================================================
