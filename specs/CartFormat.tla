---------------------------- MODULE CartFormat ----------------------------
(* On-disk encodings as the PICO-8 formats prescribe them, as functions of memory bytes. *)
EXTENDS Integers, Sequences, FiniteSets, TLC, Json
Hex(d) == IF d < 10 THEN 48 + d ELSE 87 + d          \* lower-case hex digit
HexByte(b) == << Hex(b \div 16), Hex(b % 16) >>
\* gfx / label row: 64 bytes -> 128 pixel digits in screen order (low nibble = left pixel)
GfxByte(b) == << Hex(b % 16), Hex(b \div 16) >>
\* sfx note: memory word (lsb, msb) -> 5 digits: pitch(2) waveform(1) volume(1) effect(1)
NoteDigits(lsb, msb) ==
  LET pitch == lsb % 64
      wave == (msb \div 128) * 8 + (msb % 2) * 4 + (lsb \div 64)
      vol == (msb \div 2) % 8
      eff == (msb \div 16) % 8
  IN HexByte(pitch) \o << Hex(wave), Hex(vol), Hex(eff) >>
\* music pattern: 4 memory bytes -> "ff cccccccc": flags bit0 = byte0 bit7 (loop start),
\* bit1 = byte1 bit7 (loop back), bit2 = byte2 bit7 (stop); channels are the low 7 bits
MusicRow(b0, b1, b2, b3) ==
  HexByte((b0 \div 128) + 2 * (b1 \div 128) + 4 * (b2 \div 128)) \o <<32>> \o
  HexByte(b0 % 128) \o HexByte(b1 % 128) \o HexByte(b2 % 128) \o HexByte(b3 % 128)
\* png: memory byte -> low 2 bits of (R, G, B, A): A = bits 7:6, R = 5:4, G = 3:2, B = 1:0
PngBits(b) == [r |-> (b \div 16) % 4, g |-> (b \div 4) % 4, bl |-> b % 4, a |-> b \div 64]
VARIABLES kind, x, y
vars == <<kind, x, y>>
Init == kind = "init" /\ x = 0 /\ y = 0
Next == kind = "init" /\
        \/ \E l \in 0..255, m \in 0..255 : kind' = "note" /\ x' = l /\ y' = m
        \/ \E b \in 0..255 : kind' = "gfx" /\ x' = b /\ y' = 0
        \/ \E b \in 0..255 : kind' = "png" /\ x' = b /\ y' = 0
        \/ \E f \in 0..7, c \in {0, 1, 63, 64, 65, 127} : kind' = "music" /\ x' = f /\ y' = c
Spec == Init /\ [][Next]_vars
OneStep == kind = "init"
Emit == kind # "init" =>
  PrintT(ToJson([kind |-> kind, x |-> x, y |-> y,
    exp |-> CASE kind = "note" -> NoteDigits(x, y)
              [] kind = "gfx" -> GfxByte(x)
              [] kind = "png" -> LET p == PngBits(x) IN <<p.r, p.g, p.bl, p.a>>
              [] kind = "music" -> MusicRow((x % 2) * 128 + y, ((x \div 2) % 2) * 128 + y, (x \div 4) * 128 + y, y)]))
=============================================================================
