---------------------------- MODULE TraceWrite ----------------------------
(* Layer P acceptor for C18: a history of raw cart-memory writes recorded from Game.write_cart_data.
   Memory model: 0x4300 bytes; prior contents Base(a); the j-th write stores D(j, addr, k) at
   addr + k (the harness uses the same patterns, chosen so that every written byte differs from
   what was there). Observation per op (ground truth from full before/after snapshots):
   raised, sizes (lengths of the five regions), runs (maximal intervals [s, e) of changed
   addresses), vals (address/value samples: every changed byte for short writes).
   Trace record: {ops: [{addr, len, raised, sizes, runs, vals}]}. *)
EXTENDS Integers, Sequences, FiniteSets, TLC, Json, IOUtils, TLCExt
Traces == JsonDeserialize(IOEnv.TRACE_FILE)
TOP == 17152
Sizes == <<8192, 4096, 256, 256, 4352>>       \* gfx map gff music sfx, in address order
Base(a) == (a * 37 + 11) % 256
D(j, addr, k) == (Base(addr + k) + j * 16 + 1 + (k % 7)) % 256
VARIABLES tid, k, verdict
vars == <<tid, k, verdict>>
T == Traces[tid]
Init == tid \in 1..Len(Traces) /\ k = 1 /\ verdict = "run"
Stop(v) == verdict' = v /\ UNCHANGED <<tid, k>>
Step ==
  /\ verdict = "run"
  /\ IF k > Len(T.ops) THEN Stop("ok")
     ELSE LET op == T.ops[k] IN
       IF op.addr < 0 \/ op.len < 0 THEN Stop("ood")
       ELSE IF op.addr + op.len > TOP THEN
          (IF ~op.raised THEN Stop("not-rejected")
           ELSE IF op.runs # <<>> \/ op.sizes # Sizes THEN Stop("reject-modified")
           ELSE k' = k + 1 /\ UNCHANGED <<tid, verdict>>)
       ELSE IF op.raised THEN Stop("spurious-error")
       ELSE IF op.sizes # Sizes THEN Stop("region-size")
       ELSE IF op.runs # (IF op.len = 0 THEN <<>> ELSE << <<op.addr, op.addr + op.len>> >>) THEN Stop("extent")
       ELSE IF \E v \in 1..Len(op.vals) : op.vals[v][1] < op.addr \/ op.vals[v][1] >= op.addr + op.len
                                            \/ op.vals[v][2] # D(k, op.addr, op.vals[v][1] - op.addr) THEN Stop("value")
       ELSE IF op.len <= 600 /\ Len(op.vals) # op.len THEN Stop("ood-samples")
       ELSE k' = k + 1 /\ UNCHANGED <<tid, verdict>>
Spec == Init /\ [][Step]_vars
Report == (verdict # "run") => PrintT(<<"VERDICT", tid, verdict, k>>)
=============================================================================
