---------------------------- MODULE System ----------------------------
(* Umbrella specification: a directory holding carts, and p8tool's commands as actions.
   Section contents are abstract ids ("A", "B", "empty"); the Lua section is a program id
   ("progA", "progB", "none") - luafmt and luamin change its form, never the program (C01, C09);
   a .p8 file carries a label section id, a .p8.png file a picture id. A command either commits or
   fails (the harness realises Fail by making the last cart-formatter call of the command raise); a failing command leaves
   the directory unchanged (C11, C13).
   File naming as the tool does it: writep8 / luamin / luafmt on X.p8 or X.p8.png write X_fmt.p8 /
   X_fmt.p8.png (also writep8: its help text promises a .p8 for a .p8.png input, the code keeps the
   input's format - modelled as the code does it); luafmt --overwrite writes X.p8 itself; build writes OUT.
   Histories are drawn at random (one successor per step) and printed step by step. *)
EXTENDS Naturals, Sequences, FiniteSets, TLC, Json
CONSTANTS MaxSteps, NSeq,
          Mode        \* "all": every command; "png": only commands that write or replace a .p8.png file (label-picture histories)
Secs == {"gfx", "gff", "map", "sfx", "music"}
Srcs == {"a.p8", "b.p8.png", "out.p8", "out.p8.png"}                \* files commands are applied to
Paths == Srcs \cup {"a_fmt.p8", "b_fmt.p8.png", "out_fmt.p8", "out_fmt.p8.png", "c.p8.png"}
IsPng(p) == p \in {"b.p8.png", "out.p8.png", "b_fmt.p8.png", "out_fmt.p8.png", "c.p8.png"}
Stem(p) == CASE p = "a.p8" -> "a" [] p = "b.p8.png" -> "b" [] p \in {"out.p8", "out.p8.png"} -> "out"
FmtName(p, png) == Stem(p) \o (IF png THEN "_fmt.p8.png" ELSE "_fmt.p8")
Absent == [exists |-> FALSE, lua |-> "none", sec |-> [s \in Secs |-> "empty"], label |-> "none"]
Cart(lua, sec, label) == [exists |-> TRUE, lua |-> lua, sec |-> sec, label |-> label]
VARIABLES fs, step, sid, last
vars == <<fs, step, sid, last>>
Init == /\ fs = [p \in Paths |->
               IF p = "a.p8" THEN Cart("progA", [s \in Secs |-> "A"], "labelA")
               ELSE IF p = "b.p8.png" THEN Cart("progB", [s \in Secs |-> "B"], "picB")
               ELSE IF p = "c.p8.png" /\ Mode = "png" THEN Cart("progB", [s \in Secs |-> "B"], "picC")   \* a second picture to copy around
               ELSE Absent]
        /\ step = 0 /\ sid \in 1..NSeq /\ last = <<>>
\* what ends up at path p when a cart (lua, sec, label section id) is written there:
\* a .p8.png keeps the picture of the file it replaces (blank if none); a .p8 keeps the cart's label section
Written(p, lua, sec, label) ==
   Cart(lua, sec, IF IsPng(p) THEN (IF fs[p].exists THEN fs[p].label ELSE "blank") ELSE label)
\* the label *section* a cart loaded from path p carries (a .p8.png has none)
LabelSec(p) == IF IsPng(p) THEN "none" ELSE fs[p].label
Cmds ==
  {[c |-> "writep8", src |-> s, dst |-> FmtName(s, IsPng(s)), ok |-> b] : s \in Srcs, b \in BOOLEAN} \cup
  {[c |-> "luamin", src |-> s, dst |-> FmtName(s, IsPng(s)), ok |-> b] : s \in Srcs, b \in BOOLEAN} \cup
  {[c |-> "luafmt", src |-> s, dst |-> FmtName(s, IsPng(s)), ok |-> b] : s \in Srcs, b \in BOOLEAN} \cup
  {[c |-> "luafmt-overwrite", src |-> s, dst |-> s, ok |-> b] : s \in {"a.p8", "out.p8"}, b \in BOOLEAN} \cup
  {[c |-> "build", src |-> s, dst |-> o, sect |-> x, kind |-> k, ok |-> b] :
       s \in {"a.p8", "b.p8.png"}, o \in {"out.p8", "out.p8.png"}, x \in Secs \cup {"lua"}, k \in {"from", "empty"}, b \in BOOLEAN} \cup
  \* not a p8tool command: the user copies one cart file over another of the same format (so the picture / label section
  \* that later writes to that path must keep is not the one an earlier write saw)
  {[c |-> "cp", src |-> s, dst |-> d, ok |-> TRUE] : s \in {p \in Paths : IsPng(p)}, d \in {"out.p8.png", "b_fmt.p8.png", "out_fmt.p8.png"}} \cup
  {[c |-> "cp", src |-> s, dst |-> d, ok |-> TRUE] : s \in {p \in Paths : ~IsPng(p)}, d \in {"out.p8", "a_fmt.p8", "out_fmt.p8"}}
Enabled(cmd) == /\ fs[cmd.src].exists
                /\ (cmd.c = "cp" => cmd.src # cmd.dst /\ fs[cmd.src] # fs[cmd.dst])
                /\ (Mode = "png" => IsPng(cmd.dst))
Apply(cmd) ==
  IF ~cmd.ok THEN fs
  ELSE IF cmd.c = "cp" THEN [fs EXCEPT ![cmd.dst] = fs[cmd.src]]
  ELSE IF cmd.c \in {"writep8", "luamin", "luafmt", "luafmt-overwrite"} THEN
       [fs EXCEPT ![cmd.dst] = Written(cmd.dst, fs[cmd.src].lua, fs[cmd.src].sec, LabelSec(cmd.src))]
  ELSE \* build: one section from a source or emptied, the rest from OUT's previous contents (or empty)
       LET prev == fs[cmd.dst]
           sec == [s \in Secs |-> IF s = cmd.sect THEN (IF cmd.kind = "from" THEN fs[cmd.src].sec[s] ELSE "empty")
                                   ELSE IF prev.exists THEN prev.sec[s] ELSE "empty"]
           lua == IF cmd.sect = "lua" THEN (IF cmd.kind = "from" THEN fs[cmd.src].lua ELSE "none")
                  ELSE IF prev.exists THEN prev.lua ELSE "none"
           lab == IF prev.exists THEN LabelSec(cmd.dst) ELSE "none"
       IN [fs EXCEPT ![cmd.dst] = Written(cmd.dst, lua, sec, lab)]
\* in "png" mode half of the steps are the user's cp (so that write / replace-the-picture / write sequences are frequent)
Pool == IF Mode = "png" /\ RandomElement({0, 1}) = 1 /\ \E c \in Cmds : c.c = "cp" /\ Enabled(c)
        THEN {c \in Cmds : c.c = "cp" /\ Enabled(c)} ELSE {c \in Cmds : Enabled(c)}
Next == /\ step < MaxSteps
        /\ \E cmd \in {RandomElement(Pool)} :
             /\ fs' = Apply(cmd) /\ step' = step + 1 /\ sid' = sid /\ last' = cmd
Spec == Init /\ [][Next]_vars
Emit == step > 0 => PrintT(ToJson([sid |-> sid, step |-> step, cmd |-> last, fs |-> fs]))
\* ---- properties of the model itself (checked on the random histories and, with MCNext, exhaustively to depth 2) ----
MCNext == step < 2 /\ \E cmd \in Cmds : Enabled(cmd) /\ fs' = Apply(cmd) /\ step' = step + 1 /\ sid' = sid /\ last' = cmd
MCSpec == Init /\ [][MCNext]_vars
FailureIsNoop == [][(~last'.ok) => fs' = fs]_vars
ProgramsOnlyFromSources == \A p \in Paths : fs[p].exists => fs[p].lua \in {"progA", "progB", "none"}
PictureStable == [][(last'.c # "cp") => \A p \in Paths : (IsPng(p) /\ fs[p].exists /\ fs'[p].exists) => fs'[p].label = fs[p].label]_vars
SourcesUntouched == [][\A p \in {"a.p8", "b.p8.png"} : (last'.c = "build") => fs'[p] = fs[p]]_vars
\* a p8tool command never changes the picture of an existing .p8.png (only the user's cp does)
=============================================================================
