---------------------------- MODULE System ----------------------------
(* Umbrella specification: a small file system holding abstract carts, and p8tool's commands as
   actions. Section contents are abstract ids; the Lua section is a pair <<program id, form>>
   where form records which writer last produced the text ("src", "fmt", "min"): luafmt and
   luamin change the form, never the program (C01, C09). A command either commits or fails;
   a failing command leaves the file system unchanged (C11, C13). *)
EXTENDS Naturals, Sequences, FiniteSets, TLC
CONSTANTS Paths,          \* cart paths, e.g. {"a.p8", "b.p8.png", "out.p8"}
          MaxSteps
Secs == {"gfx", "gff", "map", "sfx", "music"}
IsPng(p) == p \in {"b.p8.png", "out.p8.png"}
Absent == [exists |-> FALSE]
\* a cart file: lua = <<prog, form>>, sec = function section -> content id, label id, fmt
Cart(lua, sec, label, fmt) == [exists |-> TRUE, lua |-> lua, sec |-> sec, label |-> label, fmt |-> fmt]
EmptySec == [s \in Secs |-> "empty"]
VARIABLES fs, log, steps
vars == <<fs, log, steps>>
Fmt(p) == IF IsPng(p) THEN "png" ELSE "p8"
Init == /\ fs = [p \in Paths |->
               IF p = "a.p8" THEN Cart(<<"progA", "src">>, [s \in Secs |-> "A"], "labelA", "p8")
               ELSE IF p = "b.p8.png" THEN Cart(<<"progB", "src">>, [s \in Secs |-> "B"], "labelB", "png")
               ELSE Absent]
        /\ log = <<>> /\ steps = 0
\* ---- writing a cart file: two-phase; Fail models any failure while producing the bytes ----
\* a .p8.png destination keeps the label picture of the file it replaces; a .p8 keeps the cart's label section
WriteCart(p, lua, sec, label) ==
   LET lab == IF IsPng(p) THEN (IF fs[p].exists THEN fs[p].label ELSE "blank") ELSE label IN
   fs' = [fs EXCEPT ![p] = Cart(lua, sec, lab, Fmt(p))]
Commit(cmd, p, lua, sec, label) == /\ WriteCart(p, lua, sec, label) /\ log' = Append(log, [cmd |-> cmd, ok |-> TRUE, path |-> p])
Fail(cmd, p) == /\ UNCHANGED fs /\ log' = Append(log, [cmd |-> cmd, ok |-> FALSE, path |-> p])
Derived(p, suffix) == IF IsPng(p) THEN "out.p8.png" ELSE "out.p8"   \* x_fmt.p8 abstracted to the out path of that format
\* ---- commands ----
Luafmt(src, overwrite) ==
  /\ fs[src].exists
  /\ LET dst == IF overwrite /\ ~IsPng(src) THEN src ELSE Derived(src, "_fmt") IN
     /\ dst \in Paths
     /\ \/ Commit("luafmt", dst, <<fs[src].lua[1], "fmt">>, fs[src].sec, fs[src].label)
        \/ Fail("luafmt", dst)
Luamin(src) ==
  /\ fs[src].exists
  /\ LET dst == Derived(src, "_fmt") IN
     /\ dst \in Paths
     /\ \/ Commit("luamin", dst, <<fs[src].lua[1], "min">>, fs[src].sec, fs[src].label)
        \/ Fail("luamin", dst)
Writep8(src) ==
  /\ fs[src].exists /\ "out.p8" \in Paths
  /\ \/ Commit("writep8", "out.p8", fs[src].lua, fs[src].sec, fs[src].label)
     \/ Fail("writep8", "out.p8")
\* build: per-section argument in {"unspec", "empty"} \cup source paths
BuildArgs == [Secs \cup {"lua"} -> {"unspec", "empty"} \cup {p \in Paths : p \in {"a.p8", "b.p8.png"}}]
Build(out, args) ==
  /\ out \in {"out.p8", "out.p8.png"} \cap Paths
  /\ \A s \in DOMAIN args : args[s] \in Paths => fs[args[s]].exists
  /\ LET prev == fs[out]
         pick(s) == IF args[s] = "unspec" THEN (IF prev.exists THEN prev.sec[s] ELSE "empty")
                    ELSE IF args[s] = "empty" THEN "empty" ELSE fs[args[s]].sec[s]
         lua == IF args["lua"] = "unspec" THEN (IF prev.exists THEN prev.lua ELSE <<"none", "src">>)
                ELSE IF args["lua"] = "empty" THEN <<"none", "src">> ELSE fs[args["lua"]].lua
         label == IF prev.exists THEN prev.label ELSE "blank"
     IN \/ Commit("build", out, lua, [s \in Secs |-> pick(s)], label)
        \/ Fail("build", out)
Next == /\ steps < MaxSteps /\ steps' = steps + 1
        /\ \/ \E p \in Paths, ow \in BOOLEAN : Luafmt(p, ow)
           \/ \E p \in Paths : Luamin(p)
           \/ \E p \in Paths : Writep8(p)
           \/ \E o \in Paths, src \in {"a.p8", "b.p8.png"}, s \in Secs \cup {"lua"}, k \in {"empty", "src"} :
                 Build(o, [x \in Secs \cup {"lua"} |-> IF x = s THEN (IF k = "src" THEN src ELSE "empty") ELSE "unspec"])
Spec == Init /\ [][Next]_vars
\* ---- properties ----
TypeOK == \A p \in Paths : fs[p].exists => fs[p].fmt = Fmt(p)
\* C11/C13: a failed command changes nothing
FailureIsNoop == [][(log' # log /\ ~log'[Len(log')].ok) => fs' = fs]_vars
\* C01/C09: formatting and minifying never change which program a file holds, nor its data sections
ProgramsOnlyFromSources == \A p \in Paths : fs[p].exists => fs[p].lua[1] \in {"progA", "progB", "none"}
\* a .p8.png file's label picture only ever comes from the file previously at that path (or blank)
PngLabelStable == [][\A p \in Paths : (IsPng(p) /\ fs[p].exists /\ fs'[p].exists) => fs'[p].label = fs[p].label]_vars
\* sources given on the command line are never modified by build (unless they are OUT itself)
SourcesUntouched == [][\A p \in {"a.p8", "b.p8.png"} : (log' # log /\ log'[Len(log')].cmd = "build") => fs'[p] = fs[p]]_vars
=============================================================================
