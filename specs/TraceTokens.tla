---------------------------- MODULE TraceTokens ----------------------------
(* No-silent-loss clause of C09 (F5): whenever a tree-driven writer returns, its output holds
   exactly the input's significant tokens and comments, in order, with identical spelling
   (comments modulo whitespace; with renameOK, identifiers may differ). No derivation needed.
   Trace record: {src, out, renameOK}. *)
EXTENDS P8Lex, Json, IOUtils, TLCExt
Traces == JsonDeserialize(IOEnv.TRACE_FILE)
VARIABLES tid, i, o, verdict
vars == <<tid, i, o, verdict>>
T == Traces[tid]
Src == T.src
Out == T.out
Init == tid \in 1..Len(Traces) /\ i = 1 /\ o = 1 /\ verdict = "run"
Stop(v) == verdict' = v /\ UNCHANGED <<tid, i, o>>
Squeeze(w) == SelectSeq(w, LAMBDA c : c \notin {32, 9, 10, 13})
Step ==
  /\ verdict = "run"
  /\ LET ti == IF i <= Len(Src) THEN NextTok(Src, i) ELSE Tok("eof", i)
         to == IF o <= Len(Out) THEN NextTok(Out, o) ELSE Tok("eof", o) IN
     IF ti.k \in Bad THEN Stop("ood")
     ELSE IF ti.k = "str" /\ ~StrValue(Src, i, ti.e).ok THEN Stop("ood")
     ELSE IF ti.k \in {"sp", "nl"} THEN i' = ti.e /\ UNCHANGED <<tid, o, verdict>>
     ELSE IF to.k \in Bad THEN Stop("lex-out")
     ELSE IF to.k \in {"sp", "nl"} THEN o' = to.e /\ UNCHANGED <<tid, i, verdict>>
     ELSE IF ti.k = "com" /\ T.renameOK THEN i' = ti.e /\ UNCHANGED <<tid, o, verdict>>   \* a minifier may drop comments
     ELSE IF to.k = "com" /\ T.renameOK THEN o' = to.e /\ UNCHANGED <<tid, i, verdict>>
     \* a minifier may drop statement-separating semicolons
     ELSE IF T.renameOK /\ ti.k = "sym" /\ SubSeq(Src, i, ti.e - 1) = <<59>> /\ ~(to.k = "sym" /\ SubSeq(Out, o, to.e - 1) = <<59>>)
          THEN i' = ti.e /\ UNCHANGED <<tid, o, verdict>>
     ELSE IF ti.k = "eof" /\ to.k = "eof" THEN Stop("ok")
     ELSE IF to.k = "eof" THEN Stop("code-dropped")
     ELSE IF ti.k = "eof" THEN Stop("code-added")
     ELSE IF ti.k # to.k THEN Stop("token-changed")
     ELSE LET a == SubSeq(Src, i, ti.e - 1) b == SubSeq(Out, o, to.e - 1) IN
       IF ti.k = "com" /\ Squeeze(a) # Squeeze(b) THEN Stop("comment-changed")
       ELSE IF ti.k = "str" /\ a # b /\ (LET vb == StrValue(Out, o, to.e) IN ~(vb.ok /\ vb.v = StrValue(Src, i, ti.e).v)) THEN Stop("token-changed")
       ELSE IF ti.k \in {"kw", "sym", "num"} /\ a # b THEN Stop("token-changed")
       ELSE IF ti.k \in {"name", "label"} /\ ~T.renameOK /\ a # b THEN Stop("token-changed")
       ELSE i' = ti.e /\ o' = to.e /\ UNCHANGED <<tid, verdict>>
Spec == Init /\ [][Step]_vars
Report == (verdict # "run") => PrintT(<<"VERDICT", tid, verdict, i, o>>)
=============================================================================
