---------------------------- MODULE GenSyn ----------------------------
EXTENDS LuaSyntax, Json, TLCExt
CONSTANTS MaxToks, MaxDeriv, MaxDepth
Min == [n \in NT |-> CASE n = "anysuf" -> 1 [] n = "argl" -> 0 [] n = "args" -> 1 [] n = "chunk" -> 0 [] n = "chunk1" -> 1 [] n = "elifs" -> 0 [] n = "els" -> 0 [] n = "exp" -> 1 [] n = "explist" -> 1 [] n = "exptail" -> 0 [] n = "field" -> 1 [] n = "fields" -> 0 [] n = "fnmeth" -> 0 [] n = "fnpath" -> 0 [] n = "forstep" -> 0 [] n = "ftail" -> 0 [] n = "funcbody" -> 3 [] n = "funcname" -> 1 [] n = "linit" -> 0 [] n = "namelist" -> 1 [] n = "parlist" -> 0 [] n = "primary" -> 1 [] n = "retvals" -> 0 [] n = "selse" -> 0 [] n = "stat" -> 1 [] n = "stats" -> 0 [] n = "stats1" -> 1 [] n = "sufs" -> 0 [] n = "sufs_c" -> 1 [] n = "sufs_v" -> 2 [] n = "tablecons" -> 2 [] n = "term" -> 1 [] n = "unops" -> 0 [] n = "var" -> 1 [] n = "varlist" -> 1]
RECURSIVE MinSeq(_)
MinSeq(st) == IF st = <<>> THEN 0 ELSE
   (IF Head(st) \in Markers THEN 0 ELSE IF IsTerm(Head(st)) THEN 1 ELSE Min[Head(st)]) + MinSeq(Tail(st))
VARIABLES stack, toks, deriv, depth, scope
vars == <<stack, toks, deriv, depth, scope>>
Init == stack = <<"chunk">> /\ toks = <<>> /\ deriv = <<>> /\ depth = 0 /\ scope = 0
\* inside a line scope, multi-line-capable constructs are still allowed syntactically, but the
\* generator keeps short-if bodies simple
Expand(p) == /\ stack # <<>> /\ Head(stack) = P[p].l
             /\ stack' = P[p].r \o Tail(stack)
             /\ deriv' = Append(deriv, p)
             /\ Len(deriv') <= MaxDeriv
             /\ Len(toks) + MinSeq(stack') <= MaxToks
             /\ UNCHANGED <<toks, depth, scope>>
Shift == /\ stack # <<>> /\ IsTerm(Head(stack))
         /\ toks' = Append(toks, [t |-> Head(stack), d |-> depth, s |-> scope])
         /\ stack' = Tail(stack) /\ UNCHANGED <<deriv, depth, scope>>
Mark == /\ stack # <<>> /\ Head(stack) \in Markers
        /\ depth' = CASE Head(stack) = "+" -> depth + 1 [] Head(stack) = "-" -> depth - 1 [] OTHER -> depth
        /\ depth' <= MaxDepth
        /\ scope' = CASE Head(stack) = "<" -> scope + 1 [] Head(stack) = ">" -> scope - 1 [] OTHER -> scope
        /\ (Head(stack) = "SB" => toks' = IF toks # <<>> /\ toks[Len(toks)].t # "SB" THEN Append(toks, [t |-> "SB", d |-> depth, s |-> scope]) ELSE toks)
        /\ (Head(stack) # "SB" => toks' = toks)
        /\ stack' = Tail(stack) /\ UNCHANGED <<deriv>>
Next == Shift \/ Mark \/ \E p \in PN : Expand(p)
Spec == Init /\ [][Next]_vars
Done == stack = <<>>
Emit == Done => PrintT(ToJson([toks |-> toks, deriv |-> deriv]))
=============================================================================
