---------------------------- MODULE Renamer ----------------------------
EXTENDS Naturals, Sequences, FiniteSets, TLC, Json
CONSTANTS Names, Preserved, Keep, KeepAll, MaxCalls, FixKeep
Letters == <<"a","b","c","d","e","f","g","h","i","j","k","l","m","n","o","p","q","r","s","t","u","v","w","x","y","z">>
RECURSIVE NameForId(_)
NameForId(i) == IF i < 26 THEN Letters[i + 1] ELSE NameForId(i \div 26) \o Letters[(i % 26) + 1]
\* ---- Layer I: MinifyNameFactory.get_short_name as written ----
VARIABLES map, next, hist
vars == <<map, next, hist>>
Init == map = <<>> /\ next = 0 /\ hist = <<>>
Blocked(c) == c \in Preserved \/ (FixKeep /\ c \in Keep)
FirstFree(n) == CHOOSE i \in n..(n + Cardinality(Preserved) + Cardinality(Keep) + 1) :
                   /\ ~Blocked(NameForId(i)) /\ \A j \in n..(i-1) : Blocked(NameForId(j))
InMap(n) == \E k \in 1..Len(map) : map[k][1] = n
Lookup(n) == LET k == CHOOSE k \in 1..Len(map) : map[k][1] = n IN map[k][2]
Get(n) ==
  IF KeepAll \/ n \in Preserved \/ n \in Keep THEN hist' = Append(hist, <<n, n>>) /\ UNCHANGED <<map, next>>
  ELSE IF InMap(n) THEN hist' = Append(hist, <<n, Lookup(n)>>) /\ UNCHANGED <<map, next>>
  ELSE LET i == FirstFree(next) IN
      /\ map' = Append(map, <<n, NameForId(i)>>) /\ next' = i + 1
      /\ hist' = Append(hist, <<n, NameForId(i)>>)
Next == Len(hist) < MaxCalls /\ \E n \in Names : Get(n)
Spec == Init /\ [][Next]_vars
\* ---- Layer P: clauses over the observable call history ----
Consistent  == \A i, j \in 1..Len(hist) : hist[i][1] = hist[j][1] => hist[i][2] = hist[j][2]
Injective   == \A i, j \in 1..Len(hist) : hist[i][2] = hist[j][2] => hist[i][1] = hist[j][1]
KeptAsIs    == \A i \in 1..Len(hist) : (KeepAll \/ hist[i][1] \in Preserved \cup Keep) => hist[i][2] = hist[i][1]
GeneratedOK == \A i \in 1..Len(hist) : hist[i][2] # hist[i][1] => hist[i][2] \notin Preserved \cup Keep
\* pipeline A: complete call histories for replay into the real name factory
Emit == Len(hist) = MaxCalls => PrintT(ToJson(hist))
=============================================================================
