---------------------------- MODULE GenWrite ----------------------------
(* Pipeline A for C18: histories of raw writes whose start and end fall within +-2 bytes of the
   six region boundaries of the PICO-8 memory map (including ends past 0x4300, which must be
   rejected), as single writes and as pairs. *)
EXTENDS Integers, Sequences, FiniteSets, TLC, Json
CONSTANT MaxOps
Bounds == {0, 8192, 12288, 12544, 12800, 17152}
Near == {b + d : b \in Bounds, d \in {0 - 2, 0 - 1, 0, 1, 2}} \cap (0..17154)
Pairs == {<<s, e>> \in Near \X Near : s <= e}
VARIABLES ops
Init == ops = <<>>
Next == Len(ops) < MaxOps /\ \E p \in Pairs : ops' = Append(ops, [addr |-> p[1], len |-> p[2] - p[1]])
Spec == Init /\ [][Next]_ops
Emit == Len(ops) = MaxOps => PrintT(ToJson(ops))
=============================================================================
