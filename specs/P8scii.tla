---------------------------- MODULE P8scii ----------------------------
(* Exhaustive check of the code table: TableOK once, PairRoundTrip for all 65536 byte pairs. *)
EXTENDS P8sciiTable
VARIABLES x, y
Init == x \in 0..255 /\ y \in 0..255
Next == UNCHANGED <<x, y>>
Spec == Init /\ [][Next]_<<x, y>>
PairRoundTrip == Decode(Encode(<<x, y>>)) = <<x, y>>
TableOK == Injective /\ PrefixFree /\ Encodable
=============================================================================
