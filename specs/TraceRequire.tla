---------------------------- MODULE TraceRequire ----------------------------
(* Layer P acceptor for the package-table part of C14 (order-free): what `p8tool build` bound for
   a graph of require() calls. Files are <name>.lua under the build root; a require string n
   written in file f resolves (default load path) to Dir(f)/n.
   Trace record: {exists: [files], req: [file |-> [names]], outcome: "ok" | "error",
                  bound: [[name, file]]} (file = which package body was embedded under that name). *)
EXTENDS Naturals, Sequences, FiniteSets, TLC, Json, IOUtils, TLCExt
Traces == JsonDeserialize(IOEnv.TRACE_FILE)
VARIABLES tid, verdict
T == Traces[tid]
Files == {"main", "p", "q", "sub/p", "sub/q"}
Dir(f) == IF f \in {"sub/p", "sub/q"} THEN "sub" ELSE ""
Resolve(d, n) == IF d = "" THEN n ELSE d \o "/" \o n
Exists == {T.exists[i] : i \in 1..Len(T.exists)}
Req(f) == IF f \in DOMAIN T.req THEN {T.req[f][i] : i \in 1..Len(T.req[f])} ELSE {}
Bound == {<<T.bound[i][1], T.bound[i][2]>> : i \in 1..Len(T.bound)}
BNames == {b[1] : b \in Bound}
BFiles == {b[2] : b \in Bound}
Users == {"main"} \cup BFiles
OnceOK == Cardinality(BNames) = Len(T.bound)
ClosedOK == \A f \in Users : \A n \in Req(f) : n \in BNames
PlausibleOK == \A b \in Bound : b[2] \in Exists /\ \E f \in Users : b[1] \in Req(f) /\ Resolve(Dir(f), b[1]) = b[2]
NothingExtra == \A b \in Bound : \E f \in Users : b[1] \in Req(f)
\* files reachable from main through requires that resolve to existing files (any traversal)
RECURSIVE Reach(_)
Reach(S) == LET N == S \cup {g \in Exists : \E f \in S : \E n \in Req(f) : Resolve(Dir(f), n) = g} IN IF N = S THEN S ELSE Reach(N)
MayFail == \E f \in Reach({"main"}) : \E n \in Req(f) : Resolve(Dir(f), n) \notin Exists
Init == tid \in 1..Len(Traces) /\ verdict = "run"
Step == /\ verdict = "run" /\ UNCHANGED tid
        /\ verdict' = IF T.outcome = "error" THEN (IF MayFail THEN "ok" ELSE "spurious-error")
                      ELSE IF ~OnceOK THEN "name-bound-twice"
                      ELSE IF ~ClosedOK THEN "required-name-missing"
                      ELSE IF ~PlausibleOK THEN "wrong-file-bound"
                      ELSE "ok"
Spec == Init /\ [][Step]_<<tid, verdict>>
Report == (verdict # "run") => PrintT(<<"VERDICT", tid, verdict>>)
=============================================================================
