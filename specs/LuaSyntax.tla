---------------------------- MODULE LuaSyntax ----------------------------
EXTENDS Naturals, Sequences, FiniteSets, TLC
\* Terminals: "k:<kw>", "s:<sym>", classes "Name" "Number" "String" "Label" "binop" "unop" "assignop" "fieldsep"
\* Pseudo: "+" "-" depth; "<" ">" line scope; "SB" statement boundary (optional ';'s)
R(l, r) == [l |-> l, r |-> r]
P == [
  Chunk      |-> R("chunk",  <<"SB", "stats">>),
  StEnd      |-> R("stats",  <<>>),
  StStat     |-> R("stats",  <<"stat", "SB", "stats">>),
  StRet      |-> R("stats",  <<"k:return", "retvals", "SB">>),
  StBreak    |-> R("stats",  <<"k:break", "SB">>),
  RetNone    |-> R("retvals", <<>>),
  RetSome    |-> R("retvals", <<"explist">>),
  Assign     |-> R("stat", <<"varlist", "assignop", "explist">>),
  CallStat   |-> R("stat", <<"primary", "sufs_c">>),
  Do         |-> R("stat", <<"k:do", "+", "chunk", "-", "k:end">>),
  While      |-> R("stat", <<"k:while", "exp", "k:do", "+", "chunk", "-", "k:end">>),
  Repeat     |-> R("stat", <<"k:repeat", "+", "chunk", "-", "k:until", "exp">>),
  If         |-> R("stat", <<"k:if", "exp", "k:then", "+", "chunk", "-", "elifs", "els", "k:end">>),
  ElifNone   |-> R("elifs", <<>>),
  Elif       |-> R("elifs", <<"k:elseif", "exp", "k:then", "+", "chunk", "-", "elifs">>),
  ElseNone   |-> R("els", <<>>),
  Else       |-> R("els", <<"k:else", "+", "chunk", "-">>),
  ShortIf    |-> R("stat", <<"<", "k:if", "s:(", "+", "exp", "-", "s:)", "chunk1", "selse", ">">>),
  SElseNone  |-> R("selse", <<>>),
  SElse      |-> R("selse", <<"k:else", "chunk1">>),
  SElseEmpty |-> R("selse", <<"k:else", "SB">>),        \* PICO-8 accepts a short-if whose `else` has nothing after it
  Chunk1     |-> R("chunk1", <<"SB", "stats1">>),
  St1Stat    |-> R("stats1", <<"stat", "SB", "stats">>),
  St1Ret     |-> R("stats1", <<"k:return", "retvals", "SB">>),
  St1Break   |-> R("stats1", <<"k:break", "SB">>),
  ForStep    |-> R("stat", <<"k:for", "Name", "s:=", "exp", "s:,", "exp", "forstep", "k:do", "+", "chunk", "-", "k:end">>),
  StepNone   |-> R("forstep", <<>>),
  Step       |-> R("forstep", <<"s:,", "exp">>),
  ForIn      |-> R("stat", <<"k:for", "namelist", "k:in", "explist", "k:do", "+", "chunk", "-", "k:end">>),
  Function   |-> R("stat", <<"k:function", "funcname", "funcbody">>),
  LocalFunc  |-> R("stat", <<"k:local", "k:function", "Name", "funcbody">>),
  Local      |-> R("stat", <<"k:local", "namelist", "linit">>),
  LInitNone  |-> R("linit", <<>>),
  LInit      |-> R("linit", <<"s:=", "explist">>),
  Goto       |-> R("stat", <<"k:goto", "Name">>),
  LabelSt    |-> R("stat", <<"Label">>),
  FName      |-> R("funcname", <<"Name", "fnpath", "fnmeth">>),
  FnPathNone |-> R("fnpath", <<>>),
  FnPath     |-> R("fnpath", <<"s:.", "Name", "fnpath">>),
  FnMethNone |-> R("fnmeth", <<>>),
  FnMeth     |-> R("fnmeth", <<"s::", "Name">>),
  FBody      |-> R("funcbody", <<"s:(", "+", "parlist", "-", "s:)", "+", "chunk", "-", "k:end">>),
  ParNone    |-> R("parlist", <<>>),
  ParNames   |-> R("parlist", <<"namelist">>),
  ParNamesDots |-> R("parlist", <<"namelist", "s:,", "s:...">>),
  ParDots    |-> R("parlist", <<"s:...">>),
  NL1        |-> R("namelist", <<"Name">>),
  NLn        |-> R("namelist", <<"Name", "s:,", "namelist">>),
  VL1        |-> R("varlist", <<"var">>),
  VLn        |-> R("varlist", <<"var", "s:,", "varlist">>),
  VarName    |-> R("var", <<"Name">>),
  VarSuf     |-> R("var", <<"primary", "sufs_v">>),
  SVIdx      |-> R("sufs_v", <<"s:[", "+", "exp", "-", "s:]">>),
  SVAttr     |-> R("sufs_v", <<"s:.", "Name">>),
  SVMore     |-> R("sufs_v", <<"anysuf", "sufs_v">>),
  SCCall     |-> R("sufs_c", <<"args">>),
  SCMeth     |-> R("sufs_c", <<"s::", "Name", "args">>),
  SCMore     |-> R("sufs_c", <<"anysuf", "sufs_c">>),
  PName      |-> R("primary", <<"Name">>),
  PParen     |-> R("primary", <<"s:(", "+", "exp", "-", "s:)">>),
  SufIdx     |-> R("anysuf", <<"s:[", "+", "exp", "-", "s:]">>),
  SufAttr    |-> R("anysuf", <<"s:.", "Name">>),
  SufCall    |-> R("anysuf", <<"args">>),
  SufMeth    |-> R("anysuf", <<"s::", "Name", "args">>),
  SufNone    |-> R("sufs", <<>>),
  SufMore    |-> R("sufs", <<"anysuf", "sufs">>),
  ArgsParen  |-> R("args", <<"s:(", "+", "argl", "-", "s:)">>),
  ArglNone   |-> R("argl", <<>>),
  ArglSome   |-> R("argl", <<"explist">>),
  ArgsTable  |-> R("args", <<"tablecons">>),
  ArgsStr    |-> R("args", <<"String">>),
  EL1        |-> R("explist", <<"exp">>),
  ELn        |-> R("explist", <<"exp", "s:,", "explist">>),
  Exp        |-> R("exp", <<"unops", "term", "exptail">>),
  UnNone     |-> R("unops", <<>>),
  Un         |-> R("unops", <<"unop", "unops">>),
  TailNone   |-> R("exptail", <<>>),
  Tail       |-> R("exptail", <<"binop", "unops", "term", "exptail">>),
  TNil       |-> R("term", <<"k:nil">>),
  TFalse     |-> R("term", <<"k:false">>),
  TTrue      |-> R("term", <<"k:true">>),
  TNum       |-> R("term", <<"Number">>),
  TStr       |-> R("term", <<"String">>),
  TDots      |-> R("term", <<"s:...">>),
  TFunc      |-> R("term", <<"k:function", "funcbody">>),
  TTable     |-> R("term", <<"tablecons">>),
  TPrefix    |-> R("term", <<"primary", "sufs">>),
  Table      |-> R("tablecons", <<"s:{", "+", "fields", "-", "s:}">>),
  FNone      |-> R("fields", <<>>),
  F1         |-> R("fields", <<"field", "ftail">>),
  FTNone     |-> R("ftail", <<>>),
  FTSep      |-> R("ftail", <<"fieldsep">>),
  FTMore     |-> R("ftail", <<"fieldsep", "field", "ftail">>),
  FieldKey   |-> R("field", <<"s:[", "+", "exp", "-", "s:]", "s:=", "exp">>),
  FieldNamed |-> R("field", <<"Name", "s:=", "exp">>),
  FieldExp   |-> R("field", <<"exp">>)
]
PN == DOMAIN P
NT == {P[p].l : p \in PN}
Markers == {"+", "-", "<", ">", "SB"}
IsTerm(s) == s \notin NT /\ s \notin Markers
BinOps == {"&","|","^^","<<",">>",">>>","<<>",">><","\\","<",">","<=",">=","~=","!=","==","..","+","-","*","/","%","^","and","or"}
UnOps == {"-","#","~","@","%","$","not"}
AssignOps == {"=","+=","-=","*=","/=","%=","..="}
\* tok: [k |-> kind in {"kw","sym","name","num","str","label"}, t |-> spelling string ("" for name/num/str/label)]
Matches(term, tok) ==
  CASE term = "Name" -> tok.k = "name"
    [] term = "Number" -> tok.k = "num"
    [] term = "String" -> tok.k = "str"
    [] term = "Label" -> tok.k = "label"
    [] term = "binop" -> tok.k \in {"sym","kw"} /\ tok.t \in BinOps
    [] term = "unop" -> tok.k \in {"sym","kw"} /\ tok.t \in UnOps
    [] term = "assignop" -> tok.k = "sym" /\ tok.t \in AssignOps
    [] term = "fieldsep" -> tok.k = "sym" /\ tok.t \in {",", ";"}
    [] OTHER -> \/ (tok.k = "kw" /\ term = "k:" \o tok.t)
                \/ (tok.k = "sym" /\ term = "s:" \o tok.t)
\* byte spelling of every keyword / symbol terminal of the grammar
SpellOf == [ x \in {"do","end","while","repeat","until","if","then","elseif","else","for","in","function","local",
                  "goto","return","break","nil","false","true","and","or","not",
                  "&","|","^^","<<",">>",">>>","<<>",">><","\\","<",">","<=",">=","~=","!=","==","..","+","-","*","/","%","^",
                  "#","~","@","$","=","+=","-=","*=","/=","%=","..=","(",")","{","}","[","]",";",":",",",".","..."} |->
  CASE x = "do" -> <<100,111>> [] x = "end" -> <<101,110,100>> [] x = "while" -> <<119,104,105,108,101>>
    [] x = "repeat" -> <<114,101,112,101,97,116>> [] x = "until" -> <<117,110,116,105,108>> [] x = "if" -> <<105,102>>
    [] x = "then" -> <<116,104,101,110>> [] x = "elseif" -> <<101,108,115,101,105,102>> [] x = "else" -> <<101,108,115,101>>
    [] x = "for" -> <<102,111,114>> [] x = "in" -> <<105,110>> [] x = "function" -> <<102,117,110,99,116,105,111,110>>
    [] x = "local" -> <<108,111,99,97,108>> [] x = "goto" -> <<103,111,116,111>> [] x = "return" -> <<114,101,116,117,114,110>>
    [] x = "break" -> <<98,114,101,97,107>> [] x = "nil" -> <<110,105,108>> [] x = "false" -> <<102,97,108,115,101>>
    [] x = "true" -> <<116,114,117,101>> [] x = "and" -> <<97,110,100>> [] x = "or" -> <<111,114>> [] x = "not" -> <<110,111,116>>
    [] x = "&" -> <<38>> [] x = "|" -> <<124>> [] x = "^^" -> <<94,94>> [] x = "<<" -> <<60,60>> [] x = ">>" -> <<62,62>>
    [] x = ">>>" -> <<62,62,62>> [] x = "<<>" -> <<60,60,62>> [] x = ">><" -> <<62,62,60>> [] x = "\\" -> <<92>>
    [] x = "<" -> <<60>> [] x = ">" -> <<62>> [] x = "<=" -> <<60,61>> [] x = ">=" -> <<62,61>> [] x = "~=" -> <<126,61>>
    [] x = "!=" -> <<33,61>> [] x = "==" -> <<61,61>> [] x = ".." -> <<46,46>> [] x = "+" -> <<43>> [] x = "-" -> <<45>>
    [] x = "*" -> <<42>> [] x = "/" -> <<47>> [] x = "%" -> <<37>> [] x = "^" -> <<94>> [] x = "#" -> <<35>> [] x = "~" -> <<126>>
    [] x = "@" -> <<64>> [] x = "$" -> <<36>> [] x = "=" -> <<61>> [] x = "+=" -> <<43,61>> [] x = "-=" -> <<45,61>>
    [] x = "*=" -> <<42,61>> [] x = "/=" -> <<47,61>> [] x = "%=" -> <<37,61>> [] x = "..=" -> <<46,46,61>>
    [] x = "(" -> <<40>> [] x = ")" -> <<41>> [] x = "{" -> <<123>> [] x = "}" -> <<125>> [] x = "[" -> <<91>> [] x = "]" -> <<93>>
    [] x = ";" -> <<59>> [] x = ":" -> <<58>> [] x = "," -> <<44>> [] x = "." -> <<46>> [] x = "..." -> <<46,46,46>> ]
SpellSet(S) == {SpellOf[x] : x \in S}
KwTerms == {"do","end","while","repeat","until","if","then","elseif","else","for","in","function","local","goto","return","break","nil","false","true"}
\* does a lexical token (kind k, spelling w as bytes) match grammar terminal h ?
LexMatches(h, k, w) ==
  CASE h = "Name" -> k = "name"
    [] h = "Number" -> k = "num"
    [] h = "String" -> k = "str"
    [] h = "Label" -> k = "label"
    [] h = "binop" -> k \in {"sym", "kw"} /\ w \in SpellSet(BinOps)
    [] h = "unop" -> k \in {"sym", "kw"} /\ w \in SpellSet(UnOps)
    [] h = "assignop" -> k = "sym" /\ w \in SpellSet(AssignOps)
    [] h = "fieldsep" -> k = "sym" /\ w \in {<<44>>, <<59>>}
    [] OTHER -> \/ (k = "kw" /\ \E x \in KwTerms : ("k:" \o x) = h /\ SpellOf[x] = w)
                \/ (k = "sym" /\ \E x \in DOMAIN SpellOf : ("s:" \o x) = h /\ SpellOf[x] = w)
=============================================================================
