---------------------------- MODULE TraceLex ----------------------------
(* Pipeline B for C07: the implementation's token list for a source is accepted iff it is the
   token list the lexical grammar dictates. One token per step. Trace record:
   {src, toks: [{k, start, line, col, v: [...], nv: [p, q] | []}]} with 0-based start/line/col. *)
EXTENDS P8Lex, Json, IOUtils, TLCExt
Traces == JsonDeserialize(IOEnv.TRACE_FILE)
VARIABLES tid, i, n, line, bol, alt, verdict
vars == <<tid, i, n, line, bol, alt, verdict>>
T == Traces[tid]
Src == T.src
Init == tid \in 1..Len(Traces) /\ i = 1 /\ n = 1 /\ line = 0 /\ bol = 1 /\ alt = FALSE /\ verdict = "run"
Stop(v) == verdict' = v /\ UNCHANGED <<tid, i, n, line, bol, alt>>
Small(x) == x >= 0 /\ x < 46340
Step ==
  /\ verdict = "run"
  /\ IF i > Len(Src) THEN (IF n = Len(T.toks) + 1 THEN Stop("ok") ELSE Stop("extra-token"))
     ELSE LET t == NextTok(Src, i) IN
       IF t.k \in Bad THEN Stop("ood")
       ELSE IF n > Len(T.toks) THEN Stop("missing-token")
       ELSE LET it == T.toks[n] IN
         \* a CR directly before the LF ending a line comment may belong to the newline token
         IF alt /\ t.k = "nl" /\ it.k = "nl" /\ it.start = i - 2 /\ it.line = line /\ it.col = i - 1 - bol THEN
              /\ i' = t.e /\ n' = n + 1 /\ line' = line + 1 /\ bol' = t.e /\ alt' = FALSE /\ UNCHANGED <<tid, verdict>>
         ELSE IF it.start # i - 1 THEN Stop("extent")
         ELSE IF it.k # t.k THEN Stop("kind")
         ELSE IF it.line # line \/ it.col # i - bol THEN Stop("linecol")
         ELSE IF t.k = "str" /\ (LET sv == StrValue(Src, i, t.e) IN ~sv.ok) THEN Stop("ood")
         ELSE IF t.k = "str" /\ StrValue(Src, i, t.e).v # it.v THEN Stop("strvalue")
         ELSE IF t.k = "num" /\ it.nv # <<>> /\
                 (LET nv == NumValue(Src, i, t.e) IN
                    nv[1] >= 0 /\ Small(nv[1]) /\ Small(nv[2]) /\ Small(it.nv[1]) /\ Small(it.nv[2])
                    /\ nv[1] * it.nv[2] # it.nv[1] * nv[2]) THEN Stop("numvalue")
         ELSE LET nls == NlCount(Src, i, t.e) IN
              /\ i' = t.e /\ n' = n + 1 /\ line' = line + nls
              /\ bol' = (IF nls > 0 THEN LastNl(Src, t.e) + 1 ELSE bol)
              /\ alt' = (t.k = "com" /\ At(Src, t.e) = 10 /\ At(Src, t.e - 1) = 13 /\ At(Src, i + 1) \in {45, 47} /\ LongOpen(Src, i + 2) # 0)
              /\ UNCHANGED <<tid, verdict>>
Spec == Init /\ [][Step]_vars
Report == (verdict # "run") => PrintT(<<"VERDICT", tid, verdict, n, i>>)
=============================================================================
