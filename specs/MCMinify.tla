---------------------------- MODULE MCMinify ----------------------------
(* Layer I: LuaMinifyTokenWriter's separator automaton over token spelling classes, checked
   against Layer P's core clause: the emitted text re-lexes (P8Lex) to the same token spellings. *)
EXTENDS P8Lex, Json, TLCExt
CONSTANTS N            \* sequence length bound
\* token classes: [k |-> kind, w |-> spelling]
S(str) == str
Toks == {
  [k |-> "name", w |-> <<97>>], [k |-> "name", w |-> <<101>>], [k |-> "name", w |-> <<200>>], [k |-> "name", w |-> <<63>>],
  [k |-> "kw", w |-> <<110,111,116>>], [k |-> "kw", w |-> <<101,110,100>>],
  [k |-> "num", w |-> <<49>>], [k |-> "num", w |-> <<49,46>>], [k |-> "num", w |-> <<46,53>>], [k |-> "num", w |-> <<48,120,49,102>>],
  [k |-> "str", w |-> <<34,115,34>>], [k |-> "str", w |-> <<91,91,115,93,93>>], [k |-> "str", w |-> <<91,61,91,115,93,61,93>>],
  [k |-> "sym", w |-> <<45>>], [k |-> "sym", w |-> <<46>>], [k |-> "sym", w |-> <<46,46>>], [k |-> "sym", w |-> <<46,46,46>>],
  [k |-> "sym", w |-> <<91>>], [k |-> "sym", w |-> <<93>>], [k |-> "sym", w |-> <<40>>], [k |-> "sym", w |-> <<41>>],
  [k |-> "sym", w |-> <<61>>], [k |-> "sym", w |-> <<60>>], [k |-> "sym", w |-> <<62>>], [k |-> "sym", w |-> <<126>>],
  [k |-> "sym", w |-> <<47>>], [k |-> "sym", w |-> <<58>>], [k |-> "sym", w |-> <<43>>], [k |-> "sym", w |-> <<94>>],
  [k |-> "label", w |-> <<58,58,108,58,58>>] }
VARIABLES seq, out, lastWord, lastNl
vars == <<seq, out, lastWord, lastNl>>
Init == seq = <<>> /\ out = <<>> /\ lastWord = FALSE /\ lastNl = TRUE
Wordy(t) == t.k \in {"name", "kw", "num"}
\* the pairwise repaired rule of the draft (kept for comparison): separate when the concatenation lexes differently
Glues(prev, t) == LET cat == prev.w \o t.w  a == NextTok(cat, 1) IN
                    a.k \in Bad \/ a.e # Len(prev.w) + 1 \/
                    (LET b == NextTok(cat, a.e) IN b.k \in Bad \/ b.e # Len(cat) + 1)
\* LuaMinifyTokenWriter._would_fuse as written in the code (Rule = "code")
IsNumSpelling(w) == w[1] \in Digit \/ (w[1] = 46 /\ Len(w) > 1 /\ w[2] \in Digit)
WouldFuse(prev, t) == LET pair == << prev.w[Len(prev.w)], t.w[1] >> IN
                        pair \in { <<45, 45>>, <<91, 91>>, <<46, 46>> } \/ (IsNumSpelling(prev.w) /\ t.w[1] = 46)
CONSTANT Rule          \* "pinned" (no fuse rule), "code" (the current writer), "pairwise" (draft repair)
Emit(t) ==
  LET prevOK == seq # <<>> /\ ~lastNl
      fuse == CASE Rule = "code" -> prevOK /\ t.k \notin {"name", "kw", "label"} /\ WouldFuse(seq[Len(seq)], t)
                [] Rule = "pairwise" -> prevOK /\ Glues(seq[Len(seq)], t)
                [] OTHER -> FALSE
      needSp == (Wordy(t) /\ lastWord) \/ fuse IN
  /\ out' = out \o (IF needSp THEN <<32>> ELSE <<>>) \o t.w
  /\ lastWord' = IF Wordy(t) THEN TRUE ELSE (t.k = "sym" /\ t.w \in {<<93>>, <<41>>, <<125>>})
  /\ lastNl' = FALSE
  /\ seq' = Append(seq, t)
Next == Len(seq) < N /\ \E t \in Toks : Emit(t)
Spec == Init /\ [][Next]_vars
\* Layer P core clause: relex(out) = seq (spellings), nothing fused, nothing became a comment
RECURSIVE Relex(_, _)
Relex(s, i) == IF i > Len(s) THEN <<>> ELSE
   LET t == NextTok(s, i) IN
     IF t.k \in Bad THEN << <<0>> >>
     ELSE IF t.k = "sp" THEN Relex(s, t.e)
     ELSE << SubSeq(s, i, t.e - 1) >> \o Relex(s, t.e)
RelexOK == Relex(out, 1) = [j \in 1..Len(seq) |-> seq[j].w]
Report == RelexOK \/ PrintT(ToJson([glue |-> [j \in 1..Len(seq) |-> [k |-> seq[j].k, w |-> seq[j].w]], out |-> out]))
\* code ~ Layer I conformance: every reachable emission (sequence, text)
EmitAll == seq # <<>> => PrintT(ToJson([toks |-> [j \in 1..Len(seq) |-> [k |-> seq[j].k, w |-> seq[j].w]], out |-> out]))
=============================================================================
