---------------------------- MODULE Session ----------------------------
(* A library session on one Game object: edits through the different APIs, saves to .p8 / .p8.png
   files, loads. Contents are abstract: every region carries a version number that each edit
   increments (the harness maps (region, version, method) to concrete bytes and keeps the concrete
   expected memory alongside); a file holds the snapshot of versions that was current when it was
   saved. What a save writes is the CURRENT cart - whatever was saved, formatted or read before
   (C03, C04); a load replaces the cart by the file's snapshot.
   Histories are drawn at random (one successor per step) and printed step by step. *)
EXTENDS Naturals, Sequences, FiniteSets, TLC, Json
CONSTANTS MaxSteps, NSeq
Regions == {"gfx", "map", "gff", "music", "sfx", "lua"}
Hows == {"accessor", "raw", "replace"}      \* section accessor; Game.write_cart_data; a fresh section object
Files == {"p8", "png"}
VARIABLES cur, files, step, sid, last
vars == <<cur, files, step, sid, last>>
NoFile == [exists |-> FALSE, snap |-> [r \in Regions |-> 0]]
Init == /\ cur = [r \in Regions |-> 0] /\ files = [f \in Files |-> NoFile]
        /\ step = 0 /\ sid \in 1..NSeq /\ last = <<>>
Cmds == {[c |-> "edit", r |-> r, how |-> h] : r \in Regions, h \in Hows} \cup
        {[c |-> "save", f |-> f] : f \in Files} \cup {[c |-> "load", f |-> f] : f \in Files}
Enabled(cmd) == /\ (cmd.c = "load" => files[cmd.f].exists)
                /\ (cmd.c = "edit" /\ cmd.r = "lua" => cmd.how = "replace")
Apply(cmd) ==
  CASE cmd.c = "edit" -> <<[cur EXCEPT ![cmd.r] = @ + 1], files>>
    [] cmd.c = "save" -> <<cur, [files EXCEPT ![cmd.f] = [exists |-> TRUE, snap |-> cur]]>>
    [] cmd.c = "load" -> <<files[cmd.f].snap, files>>
\* saves are as frequent as edits, so that edit / save / edit / save sequences on one region are common
\* (RandomElement is bound once per step through the singleton sets)
PoolK(k) == IF k \in {0, 1} THEN {c \in Cmds : c.c = "save"}
            ELSE IF k = 2 /\ \E c \in Cmds : c.c = "load" /\ Enabled(c) THEN {c \in Cmds : c.c = "load" /\ Enabled(c)}
            ELSE {c \in Cmds : c.c = "edit" /\ Enabled(c)}
Next == /\ step < MaxSteps
        /\ \E k \in {RandomElement(0..5)} : \E cmd \in {RandomElement(PoolK(k))} :
             /\ cur' = Apply(cmd)[1] /\ files' = Apply(cmd)[2] /\ step' = step + 1 /\ sid' = sid /\ last' = cmd
Spec == Init /\ [][Next]_vars
Emit == step > 0 => PrintT(ToJson([sid |-> sid, step |-> step, cmd |-> last, cur |-> cur, files |-> files]))
\* ---- properties of the model itself (exhaustively to depth 3 with MCNext) ----
MCNext == step < 3 /\ \E cmd \in Cmds : Enabled(cmd) /\ cur' = Apply(cmd)[1] /\ files' = Apply(cmd)[2]
                                        /\ step' = step + 1 /\ sid' = sid /\ last' = cmd
MCSpec == Init /\ [][MCNext]_vars
SaveIsCurrent == [][(last'.c = "save") => files'[last'.f].snap = cur /\ cur' = cur]_vars
LoadIsSnapshot == [][(last'.c = "load") => cur' = files[last'.f].snap /\ files' = files]_vars
EditIsLocal == [][(last'.c = "edit") => \A r \in Regions : r # last'.r => cur'[r] = cur[r]]_vars
FilesOnlyBySave == [][\A f \in Files : files'[f] # files[f] => (last'.c = "save" /\ last'.f = f)]_vars
=============================================================================
