---------------------------- MODULE TraceMinify ----------------------------
(* Layer P acceptor for C01/C02/C19: aligns the significant tokens of the minifier's input and
   output. One token of either stream is consumed per step (no recursion over the program). *)
EXTENDS P8Lex, Json, IOUtils, TLCExt
Traces == JsonDeserialize(IOEnv.TRACE_FILE)
CoreReserved == Keywords \cup { <<112,114,105,110,116>>, <<95,105,110,105,116>>, <<95,117,112,100,97,116,101>>,
   <<95,100,114,97,119>>, <<95,117,112,100,97,116,101,54,48>>, <<63>> }   \* print _init _update _draw _update60 ?
VARIABLES tid, i, o, n, lineI, lineO, prevO, ren, verdict
vars == <<tid, i, o, n, lineI, lineO, prevO, ren, verdict>>
T == Traces[tid]
Src == T.src
Out == T.out
Keep == {T.keep[k] : k \in 1..Len(T.keep)}
Reserved == CoreReserved \cup {T.builtins[k] : k \in 1..Len(T.builtins)}
NlIn(s, a, e) == Cardinality({j \in a..(e-1) : s[j] = 10})
\* ---- header (C19): first <= 2 comments before any code ----
RECURSIVE LeadComs(_, _, _)
LeadComs(s, p, acc) ==
  IF p > Len(s) \/ Len(acc) = 2 THEN acc
  ELSE LET t == NextTok(s, p) IN
    IF t.k = "com" THEN LeadComs(s, t.e, Append(acc, SubSeq(s, p, t.e - 1)))
    ELSE IF t.k \in {"sp", "nl"} THEN LeadComs(s, t.e, acc)
    ELSE acc
Header == LeadComs(Src, 1, <<>>)
HeaderText == IF Len(Header) = 0 THEN <<>>
              ELSE IF Len(Header) = 1 THEN Header[1] \o <<10>>
              ELSE Header[1] \o <<10>> \o Header[2] \o <<10>>
HeaderOK == Len(Out) >= Len(HeaderText) /\ SubSeq(Out, 1, Len(HeaderText)) = HeaderText
Init == /\ tid \in 1..Len(Traces) /\ i = 1 /\ o = 1 /\ n = 1 /\ lineI = 0 /\ lineO = 0 /\ prevO = 0 - 1
        /\ ren = {} /\ verdict = "run"
Stop(v) == verdict' = v /\ UNCHANGED <<tid, i, o, n, lineI, lineO, prevO, ren>>
NameOf(s, a, e, k) == IF k = "label" THEN SubSeq(s, a + 2, e - 3) ELSE SubSeq(s, a, e - 1)
IsIdent(w) == Len(w) >= 1 /\ w[1] \in Alpha /\ \A k \in 1..Len(w) : w[k] \in AlNum
InScopeCont(k) == \E j \in 1..Len(T.scopes) : T.scopes[j][1] < k /\ k <= T.scopes[j][2]
AfterScope(k) == \E j \in 1..Len(T.scopes) : k = T.scopes[j][2] + 1
Step ==
  /\ verdict = "run"
  /\ IF i = 1 /\ o = 1 /\ n = 1 /\ ~HeaderOK THEN Stop("header")
     ELSE LET ti == IF i <= Len(Src) THEN NextTok(Src, i) ELSE Tok("eof", i)
              to == IF o <= Len(Out) THEN NextTok(Out, o) ELSE Tok("eof", o) IN
     IF ti.k \in Bad THEN Stop("ood-input")
     ELSE IF to.k \in Bad THEN Stop("lex-out")
     ELSE IF ti.k \in Trivia THEN
        /\ i' = ti.e /\ lineI' = lineI + NlIn(Src, i, ti.e) /\ UNCHANGED <<tid, o, n, lineO, prevO, ren, verdict>>
     ELSE IF to.k \in Trivia THEN
        /\ o' = to.e /\ lineO' = lineO + NlIn(Out, o, to.e) /\ UNCHANGED <<tid, i, n, lineI, prevO, ren, verdict>>
     ELSE IF ti.k = "eof" /\ to.k = "eof" THEN
        IF T.statsIn # T.statsOut THEN Stop("stats") ELSE Stop("ok")
     ELSE IF ti.k = "eof" \/ to.k = "eof" THEN Stop("end-mismatch")
     ELSE IF ti.k # to.k THEN Stop("kind")
     ELSE IF n > 1 /\ InScopeCont(n) /\ lineO # prevO THEN Stop("scope-split")
     ELSE IF n > 1 /\ AfterScope(n) /\ lineO = prevO THEN Stop("scope-join")
     ELSE LET a == SubSeq(Src, i, ti.e - 1) b == SubSeq(Out, o, to.e - 1) IN
       IF ti.k \in {"kw", "sym", "num"} /\ a # b THEN Stop("spelling")
       ELSE IF ti.k = "str" /\ a # b /\
               LET va == StrValue(Src, i, ti.e) vb == StrValue(Out, o, to.e) IN ~(va.ok /\ vb.ok /\ va.v = vb.v)
            THEN Stop("strval")
       ELSE IF ti.k \in {"name", "label"} THEN
            LET x == NameOf(Src, i, ti.e, ti.k) y == NameOf(Out, o, to.e, to.k) IN
              IF \E p \in ren : p[1] = x /\ p[2] # y THEN Stop("rename-consistent")
              ELSE IF \E p \in ren : p[2] = y /\ p[1] # x THEN Stop("rename-injective")
              ELSE IF (T.keepAll \/ x \in Reserved \/ x \in Keep) /\ y # x THEN Stop("rename-kept")
              ELSE IF y # x /\ (y \in Reserved \/ y \in Keep \/ ~IsIdent(y)) THEN Stop("rename-generated")
              ELSE /\ ren' = ren \cup {<<x, y>>} /\ i' = ti.e /\ o' = to.e /\ n' = n + 1 /\ prevO' = lineO
                   /\ lineI' = lineI + NlIn(Src, i, ti.e) /\ lineO' = lineO + NlIn(Out, o, to.e)
                   /\ UNCHANGED <<tid, verdict>>
       ELSE /\ i' = ti.e /\ o' = to.e /\ n' = n + 1 /\ prevO' = lineO
            /\ lineI' = lineI + NlIn(Src, i, ti.e) /\ lineO' = lineO + NlIn(Out, o, to.e)
            /\ UNCHANGED <<tid, ren, verdict>>
Spec == Init /\ [][Step]_vars
Report == (verdict # "run") => PrintT(<<"VERDICT", tid, verdict, n, i, o>>)
=============================================================================
