---------------------------- MODULE TraceMinify ----------------------------
(* Layer P acceptor for C01 / C02 / C19: aligns the significant tokens of the minifier's input
   and output. One token of either stream is consumed per step (no recursion over the program).
   Trace record: {src, out, keepAll, keep: [[..]], builtins: [[..]], statsIn, statsOut,
   scopes: [[b, e]] (1-based indices of significant tokens of each line-scoped construct),
   titleIn, titleOut, bylineIn, bylineOut (byte lists, [-1] = none), focus}.
   focus selects the property whose clauses are judged:
     "C01"  K1 kinds / spellings / values, K2 nothing fused or swallowed, K3 line scopes, K4 stats
     "C02"  renaming clauses on the aligned identifier pairs
     "C19"  header clause *)
EXTENDS P8Names, Json, IOUtils, TLCExt
Traces == JsonDeserialize(IOEnv.TRACE_FILE)
VARIABLES tid, i, o, n, lineO, prevO, ren, verdict
vars == <<tid, i, o, n, lineO, prevO, ren, verdict>>
T == Traces[tid]
Src == T.src
Out == T.out
InKeep(x) == Listed(x, T.keepFile)
Reserved == CoreReserved \cup {T.builtins[k] : k \in 1..Len(T.builtins)}
NlIn(s, a, e) == Cardinality({j \in a..(e-1) : s[j] = 10})
\* ---- header (C19): first <= 2 comments before any code ----
RECURSIVE LeadComs(_, _, _)
LeadComs(s, p, acc) ==
  IF p > Len(s) \/ Len(acc) = 2 THEN acc
  ELSE LET t == NextTok(s, p) IN
    IF t.k = "com" THEN LeadComs(s, t.e, Append(acc, SubSeq(s, p, t.e - 1)))
    ELSE IF t.k \in {"sp", "nl"} THEN LeadComs(s, t.e, acc)
    ELSE acc
Header == LeadComs(Src, 1, <<>>)
HeaderText == IF Len(Header) = 0 THEN <<>>
              ELSE IF Len(Header) = 1 THEN Header[1] \o <<10>>
              ELSE Header[1] \o <<10>> \o Header[2] \o <<10>>
HeaderOK == Len(Out) >= Len(HeaderText) /\ SubSeq(Out, 1, Len(HeaderText)) = HeaderText
\* the output must not start with more leading comments than the header (a dropped comment is fine,
\* a comment made from code is C01's business)
\* when the input already starts with its header in canonical form, what `stats` derives from it
\* (title, byline) is what it derives from the output
Canonical == Len(Src) >= Len(HeaderText) /\ SubSeq(Src, 1, Len(HeaderText)) = HeaderText
TitlesOK == Canonical => /\ (Len(Header) >= 1 => T.titleIn = T.titleOut)
                         /\ (Len(Header) >= 2 => T.bylineIn = T.bylineOut)
Init == /\ tid \in 1..Len(Traces) /\ i = 1 /\ o = 1 /\ n = 1 /\ lineO = 0 /\ prevO = 0 - 1
        /\ ren = {} /\ verdict = "run"
Stop(v) == verdict' = v /\ UNCHANGED <<tid, i, o, n, lineO, prevO, ren>>
NameOf(s, a, e, k) == IF k = "label" THEN SubSeq(s, a + 2, e - 3) ELSE SubSeq(s, a, e - 1)
InScopeCont(k) == \E j \in 1..Len(T.scopes) : T.scopes[j][1] < k /\ k <= T.scopes[j][2]
AfterScope(k) == \E j \in 1..Len(T.scopes) : k = T.scopes[j][2] + 1
SameNum(a, b, sa, ia, ea, sb, ib, eb) ==
   a = b \/ (LET x == NumValue(sa, ia, ea) y == NumValue(sb, ib, eb) IN
               x[1] >= 0 /\ y[1] >= 0 /\ x[1] < 46340 /\ x[2] < 46340 /\ y[1] < 46340 /\ y[2] < 46340 /\ x[1] * y[2] = y[1] * x[2])
Advance(ti, to) == /\ i' = ti.e /\ o' = to.e /\ n' = n + 1 /\ prevO' = lineO
                   /\ lineO' = lineO + NlIn(Out, o, to.e)
Step ==
  /\ verdict = "run"
  /\ IF T.focus = "C19" /\ i = 1 /\ o = 1 /\ ~HeaderOK THEN Stop("header")
     ELSE IF T.focus = "C19" /\ i = 1 /\ o = 1 /\ ~TitlesOK THEN Stop("title")
     \* (C19 then goes on through the token streams: code that became a comment, or a comment that became code, shows as a
     \*  kind / end mismatch)
     ELSE LET ti == IF i <= Len(Src) THEN NextTok(Src, i) ELSE Tok("eof", i)
              to == IF o <= Len(Out) THEN NextTok(Out, o) ELSE Tok("eof", o) IN
     IF ti.k \in Bad THEN Stop("ood")
     ELSE IF ti.k = "str" /\ ~StrValue(Src, i, ti.e).ok THEN Stop("ood")
     ELSE IF ti.k \in Trivia THEN
        /\ i' = ti.e /\ UNCHANGED <<tid, o, n, lineO, prevO, ren, verdict>>
     ELSE IF to.k \in Bad THEN (IF T.focus = "C01" THEN Stop("lex-out") ELSE Stop("misaligned"))
     ELSE IF to.k \in Trivia THEN
        /\ o' = to.e /\ lineO' = lineO + NlIn(Out, o, to.e) /\ UNCHANGED <<tid, i, n, prevO, ren, verdict>>
     ELSE IF ti.k = "eof" /\ to.k = "eof" THEN
        (IF T.focus = "C01" /\ T.statsIn # T.statsOut THEN Stop("stats") ELSE Stop("ok"))
     ELSE IF T.focus = "C02" /\ (ti.k = "eof" \/ to.k = "eof" \/ ti.k # to.k) THEN Stop("misaligned")
     ELSE IF ti.k = "eof" \/ to.k = "eof" THEN Stop("end-mismatch")
     ELSE IF ti.k # to.k THEN Stop("kind")
     ELSE IF T.focus = "C01" /\ n > 1 /\ InScopeCont(n) /\ lineO # prevO THEN Stop("scope-split")
     ELSE IF T.focus = "C01" /\ n > 1 /\ AfterScope(n) /\ lineO = prevO THEN Stop("scope-join")
     ELSE LET a == SubSeq(Src, i, ti.e - 1) b == SubSeq(Out, o, to.e - 1) IN
       IF T.focus = "C01" /\ ti.k \in {"kw", "sym"} /\ a # b THEN Stop("spelling")
       ELSE IF T.focus = "C01" /\ ti.k = "num" /\ ~SameNum(a, b, Src, i, ti.e, Out, o, to.e) THEN Stop("numval")
       ELSE IF T.focus = "C01" /\ ti.k = "str" /\ a # b /\
               LET va == StrValue(Src, i, ti.e) vb == StrValue(Out, o, to.e) IN ~(vb.ok /\ va.v = vb.v)
            THEN Stop("strval")
       ELSE IF T.focus = "C01" /\ ti.k \in {"name", "label"} THEN
            \* "identifiers differ at most by the renaming": a renaming maps one input identifier to one output
            \* identifier and never merges two (a map that merges two variables changes the program)
            LET x == NameOf(Src, i, ti.e, ti.k) y == NameOf(Out, o, to.e, to.k) IN
              IF \E p \in ren : p[1] = x /\ p[2] # y THEN Stop("rename-not-a-function")
              ELSE IF \E p \in ren : p[2] = y /\ p[1] # x THEN Stop("rename-merges")
              ELSE ren' = ren \cup {<<x, y>>} /\ Advance(ti, to) /\ UNCHANGED <<tid, verdict>>
       ELSE IF T.focus = "C02" /\ ti.k \in {"name", "label"} THEN
            LET x == NameOf(Src, i, ti.e, ti.k) y == NameOf(Out, o, to.e, to.k) IN
              IF \E p \in ren : p[1] = x /\ p[2] # y THEN Stop("rename-consistent")
              ELSE IF \E p \in ren : p[2] = y /\ p[1] # x THEN Stop("rename-injective")
              ELSE IF (T.keepAll \/ x \in Reserved \/ InKeep(x)) /\ y # x THEN Stop("rename-kept")
              ELSE IF y # x /\ (y \in Reserved \/ InKeep(y) \/ ~IsIdent(y)) THEN Stop("rename-generated")
              ELSE ren' = ren \cup {<<x, y>>} /\ Advance(ti, to) /\ UNCHANGED <<tid, verdict>>
       ELSE Advance(ti, to) /\ UNCHANGED <<tid, ren, verdict>>
Spec == Init /\ [][Step]_vars
Report == (verdict # "run") => PrintT(<<"VERDICT", tid, verdict, n, i, o>>)
=============================================================================
