---------------------------- MODULE Compress ----------------------------
EXTENDS Naturals, Sequences, FiniteSets, TLC, Json
CONSTANTS MaxItems, MaxOut
\* literal table of the format: code k (1..59) -> byte; code 0 is the escape marker
TableStr == <<10, 32, 48,49,50,51,52,53,54,55,56,57, 97,98,99,100,101,102,103,104,105,106,107,108,109,110,
              111,112,113,114,115,116,117,118,119,120,121,122, 33,35,37,40,41,123,125,91,93,60,62,43,61,47,42,58,59,46,44,126,95>>
Code(b) == IF \E k \in 1..Len(TableStr) : TableStr[k] = b THEN CHOOSE k \in 1..Len(TableStr) : TableStr[k] = b ELSE 0
LitBytes == {97, 98, 10, 233}
VARIABLES out, stream, n
vars == <<out, stream, n>>
Init == out = <<>> /\ stream = <<>> /\ n = 0
RECURSIVE CopyBytes(_, _, _)      \* byte-wise, so overlapping references repeat the pattern
CopyBytes(o, off, len) == IF len = 0 THEN o ELSE CopyBytes(Append(o, o[Len(o) - off + 1]), off, len - 1)
Lit(b) == Code(b) # 0 /\ out' = Append(out, b) /\ stream' = Append(stream, Code(b))
Esc(b) == Code(b) = 0 /\ out' = Append(out, b) /\ stream' = stream \o <<0, b>>
Copy(off, len) == /\ off >= 1 /\ off <= Len(out) /\ len >= 3 /\ len <= 17
                  /\ out' = CopyBytes(out, off, len)
                  /\ stream' = stream \o << (off \div 16) + 60, (off % 16) + (len - 2) * 16 >>
Next == /\ n < MaxItems /\ n' = n + 1
        /\ \/ \E b \in LitBytes : Lit(b) \/ Esc(b)
           \/ \E off \in 1..Len(out), len \in 3..17 : Copy(off, len)
        /\ Len(out') <= MaxOut
Spec == Init /\ [][Next]_vars
Emit == PrintT(ToJson([stream |-> stream, out |-> out]))
=============================================================================
