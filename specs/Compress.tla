---------------------------- MODULE Compress ----------------------------
(* The PICO-8 `:c:` code compression format as a machine, written from the format description:
   stream byte 0x00 b = escaped literal b; 0x01..0x3b = literal from the 59-entry table;
   b1 >= 0x3c, b2 = copy of len = (b2 >> 4) + 2 bytes from offset = (b1 - 0x3c) * 16 + (b2 & 15)
   bytes back, copied byte by byte (so a block may overlap its own output).
   Well-formed: 1 <= offset <= bytes produced so far, 3 <= len <= 17.
   This module is the GENERATOR (pipeline A for the decoder side of C05): from a literal seed
   prefix it produces well-formed streams item by item; Mode "exhaustive" takes every literal of
   LitBytes and every (offset, len) of the edge-focused sets, Mode "random" takes one random item
   per step (long streams reaching the window edge). *)
EXTENDS Integers, Sequences, FiniteSets, TLC, Json
CONSTANTS MaxItems, MaxOut, Mode, NSeq
TableStr == <<10, 32, 48,49,50,51,52,53,54,55,56,57, 97,98,99,100,101,102,103,104,105,106,107,108,109,110,
              111,112,113,114,115,116,117,118,119,120,121,122, 33,35,37,40,41,123,125,91,93,60,62,43,61,47,42,58,59,46,44,126,95>>
Code(b) == IF \E k \in 1..Len(TableStr) : TableStr[k] = b THEN CHOOSE k \in 1..Len(TableStr) : TableStr[k] = b ELSE 0
LitBytes == {97, 10, 233}
Seed == <<120, 61, 49, 50, 51, 10, 102, 111, 111, 40, 41, 32, 98, 97, 114, 10, 233, 121, 61, 122>>   \* "x=123\nfoo() bar\n\xe9y=z"
RECURSIVE LitStream(_)
LitStream(t) == IF t = <<>> THEN <<>> ELSE (IF Code(Head(t)) = 0 THEN <<0, Head(t)>> ELSE <<Code(Head(t))>>) \o LitStream(Tail(t))
VARIABLES out, stream, n, sid
vars == <<out, stream, n, sid>>
Init == out = Seed /\ stream = LitStream(Seed) /\ n = 0 /\ sid \in 1..NSeq
RECURSIVE CopyBytes(_, _, _)      \* byte-wise, so overlapping references repeat the pattern
CopyBytes(o, off, len) == IF len = 0 THEN o ELSE CopyBytes(Append(o, o[Len(o) - off + 1]), off, len - 1)
LitItem(b) == [k |-> "lit", b |-> b]
CopyItem(off, len) == [k |-> "copy", off |-> off, len |-> len]
Offsets(o) == ({1, 2, 3, 4, 16, 17, 18, Len(o) - 1, Len(o)} \cup {3119, 3120, 3121, 3134, 3135}) \cap (1..(IF Len(o) < 3135 THEN Len(o) ELSE 3135))
Lens(off) == ({3, 4, 16, 17} \cup {off - 1, off, off + 1}) \cap (3..17)
Items(o) == {LitItem(b) : b \in LitBytes} \cup {CopyItem(off, len) : off \in Offsets(o), len \in 3..17}
ItemsEdge(o) == {LitItem(b) : b \in LitBytes} \cup UNION {{CopyItem(off, len) : len \in Lens(off)} : off \in Offsets(o)}
Apply(it) ==
  IF it.k = "lit" THEN /\ out' = Append(out, it.b)
                       /\ stream' = stream \o (IF Code(it.b) = 0 THEN <<0, it.b>> ELSE <<Code(it.b)>>)
  ELSE /\ out' = CopyBytes(out, it.off, it.len)
       /\ stream' = stream \o << (it.off \div 16) + 60, (it.off % 16) + (it.len - 2) * 16 >>
Next == /\ n < MaxItems /\ n' = n + 1 /\ sid' = sid
        /\ IF Mode = "random"
           THEN \E it \in {RandomElement(IF n % 5 = 4 THEN ItemsEdge(out) ELSE {CopyItem(off, 17) : off \in {1, 5, IF Len(out) < 3135 THEN Len(out) ELSE 3135}})} : Apply(it)
           ELSE \E it \in ItemsEdge(out) : Apply(it)
        /\ Len(out') <= MaxOut
Spec == Init /\ [][Next]_vars
Emit == (IF Mode = "random" THEN n = MaxItems ELSE n > 0) => PrintT(ToJson([stream |-> stream, out |-> out]))
=============================================================================
