---------------------------- MODULE P8sciiTable ----------------------------
(* The 256-entry P8SCII -> Unicode code (C15). T is the table of the working tree, extracted at
   check time (the table is data; the spec states what must hold of it and of the two conversion
   functions). *)
EXTENDS Naturals, Sequences, SequencesExt, FiniteSets, TLC, Json, IOUtils
T == JsonDeserialize(IOEnv.TABLE_FILE)        \* sequence of 256 sequences of code points; T[b+1]
Injective == \A a, b \in 1..256 : T[a] = T[b] => a = b
PrefixFree == \A a, b \in 1..256 : a # b => ~IsPrefix(T[a], T[b])
Scalar(cp) == cp >= 0 /\ cp <= 1114111 /\ ~(cp >= 55296 /\ cp <= 57343)
Encodable == Len(T) = 256 /\ \A a \in 1..256 : Len(T[a]) >= 1 /\ \A k \in 1..Len(T[a]) : Scalar(T[a][k])
Encode(bs) == IF bs = <<>> THEN <<>> ELSE FoldLeft(LAMBDA acc, b : acc \o T[b + 1], <<>>, bs)
\* greedy decoder: the unique entry that is a prefix of the remaining text
RECURSIVE Decode(_)
Decode(u) == IF u = <<>> THEN <<>> ELSE
   LET C == {a \in 1..256 : IsPrefix(T[a], u)} IN
     IF Cardinality(C) # 1 THEN << 0 - 1 >>
     ELSE LET a == CHOOSE a \in C : TRUE IN <<a - 1>> \o Decode(SubSeq(u, Len(T[a]) + 1, Len(u)))
=============================================================================
