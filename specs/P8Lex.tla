---------------------------- MODULE P8Lex ----------------------------
(* Lexical grammar of the PICO-8 Lua dialect picotool supports, written from the Lua 5.2
   manual (3.1) and the PICO-8 manual. Text is Seq(0..255). No deep recursion. *)
EXTENDS Integers, Sequences, FiniteSets, FiniteSetsExt, TLC
Digit == 48..57
HexD == Digit \cup (65..70) \cup (97..102)
BinD == {48, 49}
Alpha == (65..90) \cup (97..122) \cup {95} \cup (128..255)
AlNum == Alpha \cup Digit
SP == {32, 9}
NONE == 0 - 1
At(s, i) == IF i >= 1 /\ i <= Len(s) THEN s[i] ELSE NONE
W == 48   \* scan window: early exit within W, recursion depth <= Len/W
RECURSIVE RunEnd(_, _, _)
RunEnd(s, i, C) == IF i > Len(s) THEN Len(s) + 1 ELSE
   LET hi == IF i + W - 1 < Len(s) THEN i + W - 1 ELSE Len(s)
       S == {j \in i..hi : s[j] \notin C}
   IN IF S # {} THEN Min(S) ELSE RunEnd(s, hi + 1, C)
RECURSIVE Find(_, _, _)
Find(s, i, C) == IF i > Len(s) THEN Len(s) + 1 ELSE
   LET hi == IF i + W - 1 < Len(s) THEN i + W - 1 ELSE Len(s)
       S == {j \in i..hi : s[j] \in C}
   IN IF S # {} THEN Min(S) ELSE Find(s, hi + 1, C)
StartsWith(s, i, p) == i + Len(p) - 1 <= Len(s) /\ \A k \in 1..Len(p) : s[i+k-1] = p[k]
Keywords == { <<97,110,100>>, <<98,114,101,97,107>>, <<100,111>>, <<101,108,115,101>>,
  <<101,108,115,101,105,102>>, <<101,110,100>>, <<102,97,108,115,101>>, <<102,111,114>>,
  <<102,117,110,99,116,105,111,110>>, <<103,111,116,111>>, <<105,102>>, <<105,110>>,
  <<108,111,99,97,108>>, <<110,105,108>>, <<110,111,116>>, <<111,114>>,
  <<114,101,112,101,97,116>>, <<114,101,116,117,114,110>>, <<116,104,101,110>>,
  <<116,114,117,101>>, <<117,110,116,105,108>>, <<119,104,105,108,101>> }
Sym3 == { <<46,46,46>>, <<46,46,61>>, <<62,62,62>>, <<60,60,62>>, <<62,62,60>> }
Sym2 == { <<43,61>>, <<45,61>>, <<42,61>>, <<47,61>>, <<37,61>>, <<61,61>>, <<126,61>>, <<33,61>>,
          <<60,61>>, <<62,61>>, <<94,94>>, <<60,60>>, <<62,62>>, <<46,46>> }
Sym1 == { 38,124,126,92,43,45,42,47,37,94,35,64,36,60,62,61,40,41,123,125,91,93,59,58,44,46 }
LongOpen(s, i) == IF At(s, i) # 91 THEN NONE ELSE
   LET j == RunEnd(s, i+1, {61}) IN IF At(s, j) = 91 THEN j - i - 1 ELSE NONE
RECURSIVE LongClose(_, _, _)
LongClose(s, i, lvl) ==
  LET j == Find(s, i, {93}) IN
    IF j > Len(s) THEN 0
    ELSE IF RunEnd(s, j+1, {61}) = j + 1 + lvl /\ At(s, j+1+lvl) = 93 THEN j + lvl + 2
    ELSE LongClose(s, j + 1, lvl)
(* Quoted string: the closing quote is the first quote at an index that is not "escaped".
   An index j is escaped iff the maximal run of backslashes ending at j-1 has odd length. *)
\* number of consecutive backslashes ending at index j (0 if s[j] is not a backslash)
RECURSIVE BsBack(_, _)
BsBack(s, j) == IF j >= 1 /\ s[j] = 92 THEN 1 + BsBack(s, j - 1) ELSE 0
Escaped(s, j) == (BsBack(s, j - 1) % 2) = 1
\* a newline inside a quoted string is allowed when it is escaped, or when it belongs to the
\* whitespace skipped by a preceding \z escape
ZWs == {32, 9, 10, 13, 11, 12}
RECURSIVE BackOverWs(_, _)
BackOverWs(s, j) == IF j >= 1 /\ s[j] \in ZWs THEN BackOverWs(s, j - 1) ELSE j      \* last non-whitespace index at or before j
InZSkip(s, j) == LET k == BackOverWs(s, j - 1) IN k >= 2 /\ s[k] = 122 /\ s[k - 1] = 92 /\ (BsBack(s, k - 1) % 2) = 1
RECURSIVE StrEnd(_, _, _)
StrEnd(s, i, q) ==   \* i = index after the opening quote; result = index after closing quote, 0 if none
  LET j == Find(s, i, {q, 10}) IN
    IF j > Len(s) THEN 0
    ELSE IF Escaped(s, j) THEN StrEnd(s, j + 1, q)
    ELSE IF s[j] = 10 THEN (IF InZSkip(s, j) THEN StrEnd(s, j + 1, q) ELSE 0)
    ELSE j + 1
NumEnd(s, i) ==
  LET c == At(s, i) c2 == At(s, i+1) IN
  IF c = 48 /\ c2 \in {120, 88} /\ (At(s, i+2) \in HexD \/ (At(s, i+2) = 46 /\ At(s, i+3) \in HexD)) THEN
     LET a == RunEnd(s, i+2, HexD) IN
       IF At(s, a) = 46 /\ At(s, a+1) \in HexD THEN RunEnd(s, a+1, HexD) ELSE a
  ELSE IF c = 48 /\ c2 \in {98, 66} /\ (At(s, i+2) \in BinD \/ (At(s, i+2) = 46 /\ At(s, i+3) \in BinD)) THEN
     LET a == RunEnd(s, i+2, BinD) IN
       IF At(s, a) = 46 /\ At(s, a+1) \in BinD THEN RunEnd(s, a+1, BinD) ELSE a
  ELSE
     LET a == IF c = 46 THEN i ELSE RunEnd(s, i, Digit)
         b == IF At(s, a) = 46 /\ At(s, a+1) # 46 THEN RunEnd(s, a+1, Digit) ELSE a
         e == IF At(s, b) \in {101, 69} THEN
                 LET sgn == IF At(s, b+1) \in {45, 43} THEN b+2 ELSE b+1 IN
                   IF At(s, sgn) \in Digit THEN RunEnd(s, sgn, Digit) ELSE b
              ELSE b
     IN e
Tok(k, e) == [k |-> k, e |-> e]
NextTok(s, i) ==
  LET c == At(s, i) c2 == At(s, i+1) IN
  IF c \in SP THEN Tok("sp", RunEnd(s, i, SP))
  ELSE IF c = 10 THEN Tok("nl", i+1)
  ELSE IF c = 13 THEN Tok("nl", IF c2 = 10 THEN i+2 ELSE i+1)
  ELSE IF (c = 45 /\ c2 = 45) THEN
      IF LongOpen(s, i+2) = 0 THEN
         LET z == LongClose(s, i+4, 0) IN IF z = 0 THEN Tok("err", i) ELSE Tok("com", z)
      ELSE IF LongOpen(s, i+2) # NONE THEN Tok("ood", i)
      ELSE Tok("com", Find(s, i, {10}))
  ELSE IF (c = 47 /\ c2 = 47) THEN Tok("com", Find(s, i, {10}))
  ELSE IF c \in {34, 39} THEN LET z == StrEnd(s, i+1, c) IN IF z = 0 THEN Tok("err", i) ELSE Tok("str", z)
  ELSE IF LongOpen(s, i) # NONE THEN
      LET lvl == LongOpen(s, i) z == LongClose(s, i+lvl+2, lvl) IN
        IF z = 0 THEN Tok("err", i) ELSE Tok("str", z)
  ELSE IF c \in Digit \/ (c = 46 /\ c2 \in Digit) THEN
      LET z == NumEnd(s, i) IN
        IF At(s, z) \in AlNum \/ (At(s, z) = 46) THEN Tok("ood", i) ELSE Tok("num", z)
  ELSE IF c \in Alpha THEN
      LET z == RunEnd(s, i, AlNum) IN Tok(IF SubSeq(s, i, z-1) \in Keywords THEN "kw" ELSE "name", z)
  ELSE IF c = 63 THEN Tok("name", i+1)
  ELSE IF c = 58 /\ c2 = 58 /\ At(s, i+2) \in Alpha /\ StartsWith(s, RunEnd(s, i+2, AlNum), <<58,58>>)
       THEN Tok("label", RunEnd(s, i+2, AlNum) + 2)
  ELSE IF i+2 <= Len(s) /\ SubSeq(s, i, i+2) \in Sym3 THEN Tok("sym", i+3)
  ELSE IF i+1 <= Len(s) /\ SubSeq(s, i, i+1) \in Sym2 THEN Tok("sym", i+2)
  ELSE IF c \in Sym1 THEN Tok("sym", i+1)
  ELSE Tok("err", i)
Trivia == {"sp", "nl", "com"}
Bad == {"err", "ood"}
(* ---- string literal value ---- *)
SimpleEsc == [c \in {97,98,102,110,114,116,118,92,34,39,10, 42,35,45,124,43,94} |->
   CASE c = 97 -> 7 [] c = 98 -> 8 [] c = 102 -> 12 [] c = 110 -> 10 [] c = 114 -> 13 [] c = 116 -> 9
     [] c = 118 -> 11 [] c = 92 -> 92 [] c = 34 -> 34 [] c = 39 -> 39 [] c = 10 -> 10
     [] c = 42 -> 1 [] c = 35 -> 2 [] c = 45 -> 3 [] c = 124 -> 4 [] c = 43 -> 5 [] c = 94 -> 6]
HexVal(c) == IF c \in Digit THEN c - 48 ELSE IF c \in 65..70 THEN c - 55 ELSE c - 87
\* body = text between the quotes. Returns [ok, v]
RECURSIVE DecodeFrom(_, _)
DecodeFrom(b, i) ==
  IF i > Len(b) THEN [ok |-> TRUE, v |-> <<>>]
  ELSE IF b[i] # 92 THEN LET r == DecodeFrom(b, i+1) IN [ok |-> r.ok, v |-> <<b[i]>> \o r.v]
  ELSE LET c == At(b, i+1) IN
    IF c \in Digit THEN
       LET e == Min({RunEnd(b, i+1, Digit), i + 4})
           val == IF e - (i+1) = 1 THEN b[i+1] - 48
                  ELSE IF e - (i+1) = 2 THEN (b[i+1] - 48) * 10 + (b[i+2] - 48)
                  ELSE (b[i+1] - 48) * 100 + (b[i+2] - 48) * 10 + (b[i+3] - 48)
           r == DecodeFrom(b, e)
       IN [ok |-> r.ok /\ val <= 255, v |-> <<val % 256>> \o r.v]
    ELSE IF c = 120 THEN
       IF At(b, i+2) \in HexD /\ At(b, i+3) \in HexD
       THEN LET r == DecodeFrom(b, i+4) IN [ok |-> r.ok, v |-> <<HexVal(b[i+2]) * 16 + HexVal(b[i+3])>> \o r.v]
       ELSE [ok |-> FALSE, v |-> <<>>]
    ELSE IF c = 122 THEN DecodeFrom(b, RunEnd(b, i+2, {32, 9, 10, 13, 11, 12}))
    ELSE IF c \in DOMAIN SimpleEsc THEN LET r == DecodeFrom(b, i+2) IN [ok |-> r.ok, v |-> <<SimpleEsc[c]>> \o r.v]
    ELSE [ok |-> FALSE, v |-> <<>>]
\* value of the string token occupying s[a..e-1]
StrValue(s, a, e) ==
  IF s[a] \in {34, 39} THEN DecodeFrom(SubSeq(s, a+1, e-2), 1)
  ELSE LET lvl == LongOpen(s, a)
           b0 == a + lvl + 2
           b1 == IF At(s, b0) = 10 THEN b0 + 1 ELSE IF At(s, b0) = 13 /\ At(s, b0+1) = 10 THEN b0 + 2 ELSE b0
       IN [ok |-> TRUE, v |-> SubSeq(s, b1, e - lvl - 3)]
(* ---- comments and carriage returns ----
   Lua ends a line comment at the first LF or CR. picotool (and PICO-8 sources) are LF based:
   a CR directly before the LF may be counted to the comment or to the newline (both are
   accepted by ComEndAlt); a lone CR inside a comment is outside the dialect. *)
ComEndAlt(s, i, e) == \* the other acceptable end of a line comment starting at i with end e
   IF At(s, e) = 10 /\ At(s, e - 1) = 13 THEN e - 1 ELSE IF At(s, e) = 13 /\ At(s, e + 1) = 10 THEN e + 1 ELSE e
(* ---- numeral value as an exact rational <<p, q>> (value = p / q), or <<-1, 1>> when it
   cannot be computed within TLC's 32-bit integers ("undecided") ---- *)
RECURSIVE DigitsVal(_, _, _, _)
DigitsVal(s, a, e, base) == \* value of digits s[a..e-1] in the base; caller guarantees it fits
   IF a >= e THEN 0 ELSE DigitsVal(s, a, e - 1, base) * base + HexVal(s[e - 1])
RECURSIVE Pow(_, _)
Pow(b, n) == IF n = 0 THEN 1 ELSE b * Pow(b, n - 1)
Undecided == << 0 - 1, 1 >>
NumValue(s, a, e) ==
  LET c2 == At(s, a + 1) IN
  IF s[a] = 48 /\ c2 \in {120, 88, 98, 66} /\ e > a + 2 THEN
     LET base == IF c2 \in {120, 88} THEN 16 ELSE 2
         maxd == IF base = 16 THEN 7 ELSE 30
         dot == Find(s, a + 2, {46})
         ie == IF dot < e THEN dot ELSE e
         nfrac == IF dot < e THEN e - dot - 1 ELSE 0
         nint == ie - (a + 2)
     IN IF nint + nfrac > maxd THEN Undecided
        ELSE << DigitsVal(s, a + 2, ie, base) * Pow(base, nfrac) + (IF nfrac > 0 THEN DigitsVal(s, dot + 1, e, base) ELSE 0),
                Pow(base, nfrac) >>
  ELSE
     LET ex == Find(s, a, {101, 69})
         me == IF ex < e THEN ex ELSE e                 \* end of mantissa
         dot == Find(s, a, {46})
         ie == IF dot < me THEN dot ELSE me
         nfrac == IF dot < me THEN me - dot - 1 ELSE 0
         nint == ie - a
         neg == ex < e /\ At(s, ex + 1) = 45
         xs == IF ex < e THEN (IF At(s, ex + 1) \in {45, 43} THEN ex + 2 ELSE ex + 1) ELSE e
         nx == e - xs
     IN IF nint + nfrac > 9 \/ nx > 2 THEN Undecided
        ELSE LET m == DigitsVal(s, a, ie, 10) * Pow(10, nfrac) + (IF nfrac > 0 THEN DigitsVal(s, dot + 1, me, 10) ELSE 0)
                 x == IF nx = 0 THEN 0 ELSE DigitsVal(s, xs, e, 10)
             IN IF neg THEN (IF nfrac + x > 9 THEN Undecided ELSE << m, Pow(10, nfrac + x) >>)
                ELSE IF x >= nfrac THEN (IF nint + nfrac + (x - nfrac) > 9 THEN Undecided ELSE << m * Pow(10, x - nfrac), 1 >>)
                ELSE << m, Pow(10, nfrac - x) >>
(* ---- full token list: [k, e] plus value for str / num and 0-based line / column ---- *)
NlCount(s, a, e) == Cardinality({j \in a..(e - 1) : s[j] = 10})
LastNl(s, e) == LET S == {j \in 1..(e - 1) : s[j] = 10} IN IF S = {} THEN 0 ELSE Max(S)
=============================================================================
