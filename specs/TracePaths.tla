---------------------------- MODULE TracePaths ----------------------------
(* C12 acceptor: what one load (a cart with an #include line, or a build with a require()) opened.
   Trace record: {roots: [[comps]], opens: [[comps]] (every file opened under the sandbox, as
   components relative to the sandbox root, excluding the cart / main file itself),
   mustError (the specification's verdict: every location the argument can resolve to lies
   outside the permitted roots), outcome: "ok" | "error"}. *)
EXTENDS Naturals, Sequences, SequencesExt, FiniteSets, TLC, Json, IOUtils, TLCExt
Traces == JsonDeserialize(IOEnv.TRACE_FILE)
VARIABLES tid, verdict
T == Traces[tid]
Under(root, p) == IsPrefix(root, p) /\ Len(p) > Len(root)
Init == tid \in 1..Len(Traces) /\ verdict = "run"
Step == /\ verdict = "run" /\ UNCHANGED tid
        /\ verdict' = IF \E i \in 1..Len(T.opens) : ~\E r \in 1..Len(T.roots) : Under(T.roots[r], T.opens[i]) THEN "opened-outside"
                      ELSE IF T.mustError /\ T.outcome = "ok" THEN "hostile-accepted"
                      ELSE "ok"
Spec == Init /\ [][Step]_<<tid, verdict>>
Report == (verdict # "run") => PrintT(<<"VERDICT", tid, verdict>>)
=============================================================================
