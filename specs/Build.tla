---------------------------- MODULE Build ----------------------------
(* p8tool build OUT [--S src | --empty-S]*: per-section provenance. Contents are abstract ids:
   "prev" (OUT's previous section), "p8"/"png"/"luafile" (the named source's section),
   "empty" (the empty default). The argument kind "blank" names a source cart whose sections
   happen to equal the empty default: the result holds that source's section, i.e. "empty". *)
EXTENDS Naturals, Sequences, FiniteSets, TLC, Json
Sections == <<"lua", "gfx", "gff", "map", "sfx", "music">>
SecSet == {"lua", "gfx", "gff", "map", "sfx", "music"}
ArgKinds(s) == {"unspec", "p8", "png", "empty", "blank"} \cup (IF s = "lua" THEN {"luafile"} ELSE {})
ErrKinds == {"both", "missing", "badext", "luaext"}   \* --S and --empty-S; nonexistent source; wrong extension; a .lua file for a section other than lua
CONSTANTS MaxSpec,        \* at most this many sections named on the command line (6 = all configurations)
          MinSpec,        \* at least this many
          NoErr           \* TRUE: only usable arguments
VARIABLES args, out0, fmt
vars == <<args, out0, fmt>>
Init == /\ out0 \in {"absent", "existing"} /\ fmt \in {"p8", "png"}
        /\ args \in [SecSet -> {"unspec", "p8", "png", "empty", "blank", "luafile", "both", "missing", "badext", "luaext"}]
        /\ \A s \in SecSet : args[s] \in ArgKinds(s) \cup ErrKinds
        /\ args["lua"] # "luaext"
        /\ Cardinality({s \in SecSet : args[s] \in ErrKinds}) <= 1
        /\ Cardinality({s \in SecSet : args[s] # "unspec"}) <= MaxSpec
        /\ Cardinality({s \in SecSet : args[s] # "unspec"}) >= MinSpec
        /\ (NoErr => \A s \in SecSet : args[s] \notin ErrKinds)
Next == UNCHANGED vars
Spec == Init /\ [][Next]_vars
Fails == \E s \in SecSet : args[s] \in ErrKinds
Expect(s) == IF Fails THEN "untouched"
             ELSE CASE args[s] = "unspec" -> IF out0 = "existing" THEN "prev" ELSE "empty"
                    [] args[s] \in {"empty", "blank"} -> "empty"
                    [] OTHER -> args[s]
Label == IF Fails THEN "untouched" ELSE IF out0 = "existing" THEN "prev" ELSE "blank"
Emit == PrintT(ToJson([args |-> args, out0 |-> out0, fmt |-> fmt, fails |-> Fails,
                       expect |-> [s \in SecSet |-> Expect(s)], label |-> Label]))
=============================================================================
