---------------------------- MODULE GenTight ----------------------------
(* Generator as GenSyn, but every token gets a concrete spelling (rotating through the
   variants of its class) and the spec computes mustSep with the lexical grammar. *)
EXTENDS GenSyn
LX == INSTANCE P8Lex
SpellOf == [ x \in {"do","end","while","repeat","until","if","then","elseif","else","for","in","function","local",
                  "goto","return","break","nil","false","true","and","or","not",
                  "&","|","^^","<<",">>",">>>","<<>",">><","\\","<",">","<=",">=","~=","!=","==","..","+","-","*","/","%","^",
                  "#","~","@","$","=","+=","-=","*=","/=","%=","..=","(",")","{","}","[","]",";",":",",",".","..."} |->
  CASE x = "do" -> <<100,111>> [] x = "end" -> <<101,110,100>> [] x = "while" -> <<119,104,105,108,101>>
    [] x = "repeat" -> <<114,101,112,101,97,116>> [] x = "until" -> <<117,110,116,105,108>> [] x = "if" -> <<105,102>>
    [] x = "then" -> <<116,104,101,110>> [] x = "elseif" -> <<101,108,115,101,105,102>> [] x = "else" -> <<101,108,115,101>>
    [] x = "for" -> <<102,111,114>> [] x = "in" -> <<105,110>> [] x = "function" -> <<102,117,110,99,116,105,111,110>>
    [] x = "local" -> <<108,111,99,97,108>> [] x = "goto" -> <<103,111,116,111>> [] x = "return" -> <<114,101,116,117,114,110>>
    [] x = "break" -> <<98,114,101,97,107>> [] x = "nil" -> <<110,105,108>> [] x = "false" -> <<102,97,108,115,101>>
    [] x = "true" -> <<116,114,117,101>> [] x = "and" -> <<97,110,100>> [] x = "or" -> <<111,114>> [] x = "not" -> <<110,111,116>>
    [] x = "&" -> <<38>> [] x = "|" -> <<124>> [] x = "^^" -> <<94,94>> [] x = "<<" -> <<60,60>> [] x = ">>" -> <<62,62>>
    [] x = ">>>" -> <<62,62,62>> [] x = "<<>" -> <<60,60,62>> [] x = ">><" -> <<62,62,60>> [] x = "\\" -> <<92>>
    [] x = "<" -> <<60>> [] x = ">" -> <<62>> [] x = "<=" -> <<60,61>> [] x = ">=" -> <<62,61>> [] x = "~=" -> <<126,61>>
    [] x = "!=" -> <<33,61>> [] x = "==" -> <<61,61>> [] x = ".." -> <<46,46>> [] x = "+" -> <<43>> [] x = "-" -> <<45>>
    [] x = "*" -> <<42>> [] x = "/" -> <<47>> [] x = "%" -> <<37>> [] x = "^" -> <<94>> [] x = "#" -> <<35>> [] x = "~" -> <<126>>
    [] x = "@" -> <<64>> [] x = "$" -> <<36>> [] x = "=" -> <<61>> [] x = "+=" -> <<43,61>> [] x = "-=" -> <<45,61>>
    [] x = "*=" -> <<42,61>> [] x = "/=" -> <<47,61>> [] x = "%=" -> <<37,61>> [] x = "..=" -> <<46,46,61>>
    [] x = "(" -> <<40>> [] x = ")" -> <<41>> [] x = "{" -> <<123>> [] x = "}" -> <<125>> [] x = "[" -> <<91>> [] x = "]" -> <<93>>
    [] x = ";" -> <<59>> [] x = ":" -> <<58>> [] x = "," -> <<44>> [] x = "." -> <<46>> [] x = "..." -> <<46,46,46>> ]
\* variants per class; chosen by position so that every variant meets every neighbour somewhere
NameV == << <<97>>, <<101,49>>, <<95,120>>, <<200,98>> >>
NumV == << <<49>>, <<49,46>>, <<46,53>>, <<48,120,49,102>>, <<50,101,51>>, <<48,98,49,46,49>> >>
StrV == << <<34,115,34>>, <<39,116,39>>, <<91,91,117,93,93>>, <<91,61,91,118,93,61,93>> >>
BinV == <<"+", "-", "..", "<", ">>>", "and", "==", "\\", "^^", "/", "%", "<=", "~=", "!=", "*", "^", "&", "|", "<<", ">>", "<<>", ">><", "or", ">", ">=">>
UnV == <<"-", "not", "#", "~", "@", "%", "$">>
AsgV == <<"=", "+=", "..=", "-=", "*=", "/=", "%=">>
Pick(seq, k) == seq[(k % Len(seq)) + 1]
StripPrefix(t) == \* "k:do" -> "do"; terminals are at most 10 chars
  CHOOSE x \in DOMAIN SpellOf : t = "k:" \o x \/ t = "s:" \o x
Spell(t, k) ==
  CASE t = "Name" -> Pick(NameV, k) [] t = "Number" -> Pick(NumV, k) [] t = "String" -> Pick(StrV, k)
    [] t = "Label" -> <<58,58,108,58,58>> [] t = "binop" -> SpellOf[Pick(BinV, k)] [] t = "unop" -> SpellOf[Pick(UnV, k)]
    [] t = "assignop" -> SpellOf[Pick(AsgV, k)] [] t = "fieldsep" -> Pick(<< <<44>>, <<59>> >>, k)
    [] OTHER -> SpellOf[StripPrefix(t)]
\* two spellings written back to back must lex to exactly those two tokens
NeedSep(a, b) == LET cat == a \o b  x == LX!NextTok(cat, 1) IN
    x.k \in LX!Bad \/ x.e # Len(a) + 1 \/ (LET y == LX!NextTok(cat, x.e) IN y.k \in LX!Bad \/ y.e # Len(cat) + 1)
Real == SelectSeq(toks, LAMBDA r : r.t # "SB")
Rendered(seed) == [j \in 1..Len(toks) |->
   IF toks[j].t = "SB" THEN [t |-> "SB", w |-> <<>>, s |-> toks[j].s, sep |-> FALSE]
   ELSE [t |-> toks[j].t, w |-> Spell(toks[j].t, seed + j), s |-> toks[j].s, sep |-> FALSE]]
WithSep(r) == [j \in 1..Len(r) |->
   IF r[j].t = "SB" THEN r[j]
   ELSE LET prevs == {i \in 1..(j-1) : r[i].t # "SB"} IN
        IF prevs = {} THEN r[j]
        ELSE LET i == CHOOSE i \in prevs : \A m \in prevs : m <= i IN [r[j] EXCEPT !.sep = NeedSep(r[i].w, r[j].w)]]
EmitT == Done => PrintT(ToJson([toks |-> WithSep(Rendered(Len(deriv))), deriv |-> deriv]))
=============================================================================
