---------------------------- MODULE PathJail ----------------------------
(* Component-wise path normalisation and containment for #include. Paths are sequences of
   component strings; "" as first component = absolute. *)
EXTENDS Naturals, Sequences, SequencesExt, FiniteSets, TLC, Json
CONSTANTS MaxLen
Comps == {"a", "foo", "foobar", "..", ".", ""}
\* the sandbox: /S/w/foo/cart.p8 is the including cart; include root = /S/w/foo
CartDir == <<"S", "w", "foo">>
Root == CartDir
RECURSIVE NormFrom(_, _, _)
NormFrom(stack, comps, k) ==
  IF k > Len(comps) THEN stack
  ELSE LET c == comps[k] IN
    IF c = "" /\ k = 1 THEN NormFrom(<<>>, comps, k + 1)            \* absolute path: restart at /
    ELSE IF c = "" \/ c = "." THEN NormFrom(stack, comps, k + 1)
    ELSE IF c = ".." THEN NormFrom(IF stack = <<>> THEN <<>> ELSE SubSeq(stack, 1, Len(stack) - 1), comps, k + 1)
    ELSE NormFrom(Append(stack, c), comps, k + 1)
\* where "#include <comps>/x.lua" written in the cart resolves to
Target(comps) == NormFrom(CartDir, comps \o <<"x.lua">>, 1)
Under(root, p) == IsPrefix(root, p) /\ Len(p) > Len(root)
StringPrefixUnder(root, p) ==      \* the mutant: compare joined strings
   LET J(q) == FoldLeft(LAMBDA acc, c : acc \o "/" \o c, "", q) IN
   \E n \in 0..40 : FALSE          \* (strings cannot be sliced in TLC; mutant is modelled in MC_PathJail on char sequences)
VARIABLE inc
Init == inc = <<>>
Next == Len(inc) < MaxLen /\ \E c \in Comps : inc' = Append(inc, c)
Spec == Init /\ [][Next]_inc
Emit == PrintT(ToJson([inc |-> inc, target |-> Target(inc), inside |-> Under(Root, Target(inc))]))
=============================================================================
