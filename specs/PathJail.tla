---------------------------- MODULE PathJail ----------------------------
(* Component-wise path normalisation and containment for #include and require() (C12).
   Paths are sequences of component strings relative to the sandbox root; "" as first component
   of an argument = absolute path (restart at the sandbox root, which plays the role of /).
   Generator: every argument of at most MaxLen components over Comps, with the locations it
   resolves to and whether each lies under a permitted root. *)
EXTENDS Naturals, Sequences, SequencesExt, FiniteSets, TLC, Json
CONSTANTS MaxLen, Mode          \* Mode: "include" | "require"
\* "a;" and "?" are ordinary file-name components for path resolution (the load-path separator and the
\* template placeholder are characters a require string may contain); the harness writes the text after a
\* component ending in ";" as an absolute path, so that a loader that splits the string at ";" sees one
Comps == {"a", "foo", "foobar", "..", ".", "", "a;", "?"}
RECURSIVE NormFrom(_, _, _)
NormFrom(stack, comps, k) ==
  IF k > Len(comps) THEN stack
  ELSE LET c == comps[k] IN
    IF c = "" /\ k = 1 THEN NormFrom(<<>>, comps, k + 1)            \* absolute path: restart at /
    ELSE IF c = "" \/ c = "." THEN NormFrom(stack, comps, k + 1)
    ELSE IF c = ".." THEN NormFrom(IF stack = <<>> THEN <<>> ELSE SubSeq(stack, 1, Len(stack) - 1), comps, k + 1)
    ELSE NormFrom(Append(stack, c), comps, k + 1)
Under(root, p) == IsPrefix(root, p) /\ Len(p) > Len(root)
\* the mutant: containment decided on the joined string (a sibling whose name merely starts with the root's name passes)
StrPrefixUnder(root, p) == Len(p) >= Len(root) /\ SubSeq(p, 1, Len(root) - 1) = SubSeq(root, 1, Len(root) - 1)
                           /\ root # <<>> /\ p[Len(root)] \in {root[Len(root)], root[Len(root)] \o "bar"}
\* ---- #include: three cart locations ----
Carts == <<"home", ".lexaloffle", "pico-8", "carts">>
CartDir(loc) == CASE loc = "plain" -> <<"w", "foo">>
                  [] loc = "carts" -> Carts \o <<"foo">>
                  [] loc = "sibling" -> <<"home", ".lexaloffle", "pico-8", "cartsbar", "foo">>
\* include root: the PICO-8 carts folder if the cart is (component-wise) inside it, else the cart's directory
IncRoot(loc) == IF Under(Carts, CartDir(loc) \o <<"cart.p8">>) THEN Carts ELSE CartDir(loc)
IncTarget(loc, arg) == NormFrom(CartDir(loc), arg \o <<"x.lua">>, 1)
\* ---- require(): load-path configurations; a template = [abs, pre, ext, post] ----
Tpl(abs, pre, ext, post) == [abs |-> abs, pre |-> pre, ext |-> ext, post |-> post]
LoadPath(cfg) == CASE cfg \in {"default", "qdir"} -> << Tpl(FALSE, <<>>, "", <<>>), Tpl(FALSE, <<>>, ".lua", <<>>) >>
                   [] cfg \in {"relative", "env"} -> << Tpl(FALSE, <<"lib">>, ".lua", <<>>), Tpl(FALSE, <<>>, "", <<"init.lua">>) >>
                   [] cfg = "absolute" -> << Tpl(TRUE, <<"libs">>, ".lua", <<>>) >>
MainDir == <<"w", "foo">>
\* "qdir": the requiring file lives in a directory whose own name contains the template placeholder
MainDirOf(cfg) == IF cfg = "qdir" THEN <<"w", "fo?">> ELSE MainDir
WithExt(arg, ext) == IF arg = <<>> THEN <<ext>> ELSE SubSeq(arg, 1, Len(arg) - 1) \o << arg[Len(arg)] \o ext >>
ReqTarget(cfg, t, arg) == NormFrom(IF t.abs THEN <<>> ELSE MainDirOf(cfg), t.pre \o WithExt(arg, t.ext) \o t.post, 1)
ReqRoots(cfg) == {MainDirOf(cfg)} \cup {NormFrom(IF LoadPath(cfg)[i].abs THEN <<>> ELSE MainDirOf(cfg), LoadPath(cfg)[i].pre, 1) : i \in 1..Len(LoadPath(cfg))}
VARIABLE arg
Init == arg = <<>>
Next == Len(arg) < MaxLen /\ \E c \in Comps : arg' = Append(arg, c)
Spec == Init /\ [][Next]_arg
Locs == <<"plain", "carts", "sibling">>
Cfgs == <<"default", "relative", "absolute", "env", "qdir">>
Emit == IF Mode = "include"
        THEN PrintT(ToJson([arg |-> arg, cases |-> [i \in 1..3 |-> [loc |-> Locs[i], cartdir |-> CartDir(Locs[i]), root |-> IncRoot(Locs[i]),
                                  target |-> IncTarget(Locs[i], arg), inside |-> Under(IncRoot(Locs[i]), IncTarget(Locs[i], arg))]]]))
        ELSE PrintT(ToJson([arg |-> arg, cases |-> [i \in 1..5 |-> [cfg |-> Cfgs[i], maindir |-> MainDirOf(Cfgs[i]), roots |-> SetToSeq(ReqRoots(Cfgs[i])),
                                  cands |-> [j \in 1..Len(LoadPath(Cfgs[i])) |->
                                      LET tg == ReqTarget(Cfgs[i], LoadPath(Cfgs[i])[j], arg) IN
                                        [target |-> tg, inside |-> \E r \in ReqRoots(Cfgs[i]) : Under(r, tg)]]]]]))
\* ---- properties of the spec itself (MC_PathJail) ----
NormIdempotent == NormFrom(<<>>, NormFrom(MainDir, arg, 1), 1) = NormFrom(MainDir, arg, 1)
UnderKeptByNames == \A c \in {"a", "foo", "foobar"} : Under(MainDir, NormFrom(MainDir, arg, 1) \o <<"q">>) => Under(MainDir, NormFrom(MainDir, arg, 1) \o <<c, "q">>)
\* the string-prefix containment test accepts an escaping location: must be reported by TLC
NoPrefixConfusion == StrPrefixUnder(MainDir, IncTarget("plain", arg)) => Under(MainDir, IncTarget("plain", arg))
=============================================================================
