---------------------------- MODULE TraceLoadPath ----------------------------
(* C14 with a custom Lua load path: which file `p8tool build --lua-path PATTERNS` embedded for each
   required name. A load path is a list of patterns separated by ";"; a pattern is tried by replacing
   EVERY "?" in it by the require string, relative to the directory of the requiring file; the first
   pattern whose file exists wins (Lua's package.searchpath). Patterns arrive split at their "?"s
   (segs), so substitution is concatenation.
   Trace record: {patterns: [[seg, ...]], exists: [path], reqs: [name], outcome: "ok" | "error",
                  bound: [[name, path]]} (paths relative to the main file's directory). *)
EXTENDS Naturals, Sequences, FiniteSets, TLC, Json, IOUtils, TLCExt
Traces == JsonDeserialize(IOEnv.TRACE_FILE)
VARIABLES tid, verdict
T == Traces[tid]
RECURSIVE Subst(_, _)
Subst(segs, n) == IF Len(segs) = 1 THEN segs[1] ELSE segs[1] \o n \o Subst(Tail(segs), n)
Exists == {T.exists[i] : i \in 1..Len(T.exists)}
Cands(n) == [i \in 1..Len(T.patterns) |-> Subst(T.patterns[i], n)]
Hits(n) == {i \in 1..Len(T.patterns) : Cands(n)[i] \in Exists}
Expected(n) == IF Hits(n) = {} THEN "<none>" ELSE Cands(n)[CHOOSE i \in Hits(n) : \A j \in Hits(n) : i <= j]
Reqs == {T.reqs[i] : i \in 1..Len(T.reqs)}
Bound == {<<T.bound[i][1], T.bound[i][2]>> : i \in 1..Len(T.bound)}
Init == tid \in 1..Len(Traces) /\ verdict = "run"
Step == /\ verdict = "run" /\ UNCHANGED tid
        /\ verdict' = IF \E n \in Reqs : Expected(n) = "<none>" THEN (IF T.outcome = "error" THEN "ok" ELSE "missing-package-accepted")
                      ELSE IF T.outcome = "error" THEN "spurious-error"
                      ELSE IF Cardinality({b[1] : b \in Bound}) # Len(T.bound) THEN "name-bound-twice"
                      ELSE IF \E n \in Reqs : ~\E b \in Bound : b[1] = n THEN "required-name-missing"
                      ELSE IF \E b \in Bound : b[1] \in Reqs /\ b[2] # Expected(b[1]) THEN "wrong-file-bound"
                      ELSE "ok"
Spec == Init /\ [][Step]_<<tid, verdict>>
Report == (verdict # "run") => PrintT(<<"VERDICT", tid, verdict>>)
=============================================================================
