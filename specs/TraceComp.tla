---------------------------- MODULE TraceComp ----------------------------
(* Acceptor: the :c: decoder machine driven by the bytes of a code area produced by the
   implementation. Well-formedness = enabling conditions; result must equal the text. *)
EXTENDS Integers, Sequences, FiniteSets, TLC, Json, IOUtils, TLCExt
Traces == JsonDeserialize(IOEnv.TRACE_FILE)
TableStr == <<10, 32, 48,49,50,51,52,53,54,55,56,57, 97,98,99,100,101,102,103,104,105,106,107,108,109,110,
              111,112,113,114,115,116,117,118,119,120,121,122, 33,35,37,40,41,123,125,91,93,60,62,43,61,47,42,58,59,46,44,126,95>>
\* compatibility suffixes PICO-8 appends after the code (beyond the declared length)
VARIABLES tid, p, out, verdict
vars == <<tid, p, out, verdict>>
T == Traces[tid]
A == T.area          \* the code area bytes (header + stream, without zero padding beyond stream end)
Text == T.text
Hdr == <<58, 99, 58, 0>>
Compressed == Len(A) >= 8 /\ SubSeq(A, 1, 4) = Hdr
DeclLen == A[5] * 256 + A[6]
RECURSIVE CopyBytes(_, _, _)
CopyBytes(o, off, len) == IF len = 0 THEN o ELSE CopyBytes(Append(o, o[Len(o) - off + 1]), off, len - 1)
Init == tid \in 1..Len(Traces) /\ p = 9 /\ out = <<>> /\ verdict = "run"
Stop(v) == verdict' = v /\ UNCHANGED <<tid, p, out>>
Step ==
  /\ verdict = "run"
  /\ IF ~Compressed THEN
        \* raw representation: bytes up to the first NUL are the text
        LET z == {j \in 1..Len(A) : A[j] = 0} raw == IF z = {} THEN A ELSE SubSeq(A, 1, (CHOOSE j \in z : \A k \in z : j <= k) - 1) IN
          IF raw = Text THEN Stop("ok-raw") ELSE Stop("raw-mismatch")
     ELSE IF A[7] # 0 \/ A[8] # 0 THEN Stop("header")
     ELSE IF DeclLen # Len(Text) THEN Stop("length-field")
     ELSE IF Len(out) >= DeclLen \/ p > Len(A) THEN
          (IF SubSeq(out, 1, IF Len(out) < DeclLen THEN Len(out) ELSE DeclLen) # Text THEN Stop("text-mismatch")
           ELSE IF T.implDecoded # << 0 - 1 >> /\ T.implDecoded # Text THEN Stop("impl-decode-mismatch")
           ELSE Stop("ok"))
     ELSE LET b == A[p] IN
       IF b = 0 THEN (IF p + 1 > Len(A) THEN Stop("truncated") ELSE out' = Append(out, A[p+1]) /\ p' = p + 2 /\ UNCHANGED <<tid, verdict>>)
       ELSE IF b <= 59 THEN out' = Append(out, TableStr[b]) /\ p' = p + 1 /\ UNCHANGED <<tid, verdict>>
       ELSE IF p + 1 > Len(A) THEN Stop("truncated")
       ELSE LET off == (b - 60) * 16 + (A[p+1] % 16)  len == (A[p+1] \div 16) + 2 IN
         IF off < 1 \/ off > Len(out) THEN Stop("bad-offset")
         ELSE IF len < 3 \/ len > 17 THEN Stop("bad-length")
         ELSE out' = CopyBytes(out, off, len) /\ p' = p + 2 /\ UNCHANGED <<tid, verdict>>
Spec == Init /\ [][Step]_vars
Report == (verdict # "run") => PrintT(<<"VERDICT", tid, verdict, p, Len(out)>>)
=============================================================================
