---------------------------- MODULE GenProg ----------------------------
(* Pipeline A generator for the syntax-directed properties (C01 C06-C10 C14 C19): all leftmost
   derivations of the dialect grammar (LuaSyntax) up to a token bound, each terminal with its
   block depth, line-scope level, a concrete spelling and a spec-computed separator flag
   (NeedSep from P8Lex). Mode restricts productions: "all", "skeleton" (every exp is a single
   Name, so the token budget buys statement nesting), "expr" (one assignment with a large
   expression). *)
EXTENDS LuaSyntax, Json, TLCExt
LX == INSTANCE P8Lex
CONSTANTS MaxToks, MaxDeriv, MaxDepth, Mode
Min == [n \in NT |-> CASE n = "anysuf" -> 1 [] n = "argl" -> 0 [] n = "args" -> 1 [] n = "chunk" -> 0 [] n = "chunk1" -> 1 [] n = "elifs" -> 0 [] n = "els" -> 0 [] n = "exp" -> 1 [] n = "explist" -> 1 [] n = "exptail" -> 0 [] n = "field" -> 1 [] n = "fields" -> 0 [] n = "fnmeth" -> 0 [] n = "fnpath" -> 0 [] n = "forstep" -> 0 [] n = "ftail" -> 0 [] n = "funcbody" -> 3 [] n = "funcname" -> 1 [] n = "linit" -> 0 [] n = "namelist" -> 1 [] n = "parlist" -> 0 [] n = "primary" -> 1 [] n = "retvals" -> 0 [] n = "selse" -> 0 [] n = "stat" -> 1 [] n = "stats" -> 0 [] n = "stats1" -> 1 [] n = "sufs" -> 0 [] n = "sufs_c" -> 1 [] n = "sufs_v" -> 2 [] n = "tablecons" -> 2 [] n = "term" -> 1 [] n = "unops" -> 0 [] n = "var" -> 1 [] n = "varlist" -> 1]
RECURSIVE MinSeq(_)
MinSeq(st) == IF st = <<>> THEN 0 ELSE
   (IF Head(st) \in Markers THEN 0 ELSE IF IsTerm(Head(st)) THEN 1 ELSE Min[Head(st)]) + MinSeq(Tail(st))
VARIABLES stack, toks, deriv, depth, scope, nsc, nt
vars == <<stack, toks, deriv, depth, scope, nsc, nt>>
Init == stack = <<"chunk">> /\ toks = <<>> /\ deriv = <<>> /\ depth = 0 /\ scope = <<>> /\ nsc = 0 /\ nt = 0
\* inside a line scope, multi-line-capable constructs are still allowed syntactically, but the
\* generator keeps short-if bodies simple
ExprOnly == {"Exp", "UnNone", "TailNone", "TPrefix", "PName", "SufNone"}
StatProds == {p \in PN : P[p].l = "stat"}
Allowed(p) ==
  CASE Mode = "skeleton" -> (P[p].l \in {"exp", "unops", "exptail", "term", "primary", "sufs"} => p \in ExprOnly)
    [] Mode = "shortif" -> /\ (P[p].l \in {"exp", "unops", "exptail", "term", "primary", "sufs"} => p \in ExprOnly)
                           /\ (p \in StatProds => p \in {"ShortIf", "Assign", "Goto"})
                           /\ p \notin {"VLn", "VarSuf", "ELn", "StRet", "St1Ret"}
    [] Mode = "blocks" -> /\ (P[p].l \in {"exp", "unops", "exptail", "term", "primary", "sufs"} => p \in ExprOnly)
                          /\ (p \in StatProds => p \in {"If", "Do", "While", "Repeat", "ForIn", "ForStep", "Goto"})
                          /\ p \notin {"NLn", "ELn", "StRet", "Step"}
    [] Mode = "expr" -> (p \in StatProds => p = "Assign") /\ p \notin {"TFunc", "StRet", "StBreak", "VLn", "VarSuf"}
                        /\ (p = "StStat" => deriv = <<"Chunk">>)
    [] OTHER -> TRUE
Expand(p) == /\ stack # <<>> /\ Head(stack) = P[p].l /\ Allowed(p)
             /\ stack' = P[p].r \o Tail(stack)
             /\ deriv' = Append(deriv, p)
             /\ Len(deriv') <= MaxDeriv
             /\ nt + MinSeq(stack') <= MaxToks
             /\ UNCHANGED <<toks, depth, scope, nsc, nt>>
Shift == /\ stack # <<>> /\ IsTerm(Head(stack))
         /\ toks' = Append(toks, [t |-> Head(stack), d |-> depth, s |-> scope])
         /\ nt' = nt + 1
         /\ stack' = Tail(stack) /\ UNCHANGED <<deriv, depth, scope, nsc>>
Mark == /\ stack # <<>> /\ Head(stack) \in Markers
        /\ depth' = CASE Head(stack) = "+" -> depth + 1 [] Head(stack) = "-" -> depth - 1 [] OTHER -> depth
        /\ depth' <= MaxDepth
        /\ scope' = CASE Head(stack) = "<" -> <<nsc + 1>> \o scope [] Head(stack) = ">" -> Tail(scope) [] OTHER -> scope
        /\ nsc' = IF Head(stack) = "<" THEN nsc + 1 ELSE nsc
        /\ (Head(stack) = "SB" => toks' = IF toks = <<>> THEN toks
                                          ELSE IF toks[Len(toks)].t # "SB" THEN Append(toks, [t |-> "SB", d |-> depth, s |-> scope])
                                          ELSE [toks EXCEPT ![Len(toks)] = [t |-> "SB", d |-> depth, s |-> scope]])
        /\ (Head(stack) # "SB" => toks' = toks)
        /\ stack' = Tail(stack) /\ UNCHANGED <<deriv, nt>>
Next == Shift \/ Mark \/ \E p \in PN : Expand(p)
Spec == Init /\ [][Next]_vars
Done == stack = <<>>
\* variants per class; chosen by position so that every variant meets every neighbour somewhere
NameV == << <<97>>, <<101,49>>, <<95,120>>, <<200,98>>, <<65>>, <<200,116,111,112>> >>       \* a e1 _x \xc8b A \xc8top
LabelV == << <<58,58,108,58,58>>, <<58,58,200,116,111,112,58,58>>, <<58,58,101,49,58,58>> >>   \* ::l:: ::\xc8top:: ::e1::
NumV == << <<49>>, <<49,46>>, <<46,53>>, <<48,120,49,102>>, <<50,101,51>>, <<48,98,49,46,49>>, <<48,120,46,56,102>> >>      \* 1 1. .5 0x1f 2e3 0b1.1 0x.8f
StrV == << <<34,115,34>>, <<39,116,39>>, <<91,91,117,93,93>>, <<91,61,91,118,93,61,93>>, <<34,97,92,110,98,34>>, <<39,92,39,39>> >>      \* "s" 't' [[u]] [=[v]=] "a\nb" '\''
BinV == <<"+", "-", "..", "<", ">>>", "and", "==", "\\", "^^", "/", "%", "<=", "~=", "!=", "*", "^", "&", "|", "<<", ">>", "<<>", ">><", "or", ">", ">=">>
UnV == <<"-", "not", "#", "~", "@", "%", "$">>
AsgV == <<"=", "+=", "..=", "-=", "*=", "/=", "%=">>
Pick(seq, k) == seq[(k % Len(seq)) + 1]
StripPrefix(t) == \* "k:do" -> "do"; terminals are at most 10 chars
  CHOOSE x \in DOMAIN SpellOf : t = "k:" \o x \/ t = "s:" \o x
Spell(t, k) ==
  CASE t = "Name" -> Pick(NameV, k) [] t = "Number" -> Pick(NumV, k) [] t = "String" -> Pick(StrV, k)
    [] t = "Label" -> Pick(LabelV, k) [] t = "binop" -> SpellOf[Pick(BinV, k)] [] t = "unop" -> SpellOf[Pick(UnV, k)]
    [] t = "assignop" -> SpellOf[Pick(AsgV, k)] [] t = "fieldsep" -> Pick(<< <<44>>, <<59>> >>, k)
    [] OTHER -> SpellOf[StripPrefix(t)]
\* two spellings written back to back must lex to exactly those two tokens
NeedSep(a, b) == LET cat == a \o b  x == LX!NextTok(cat, 1) IN
    x.k \in LX!Bad \/ x.e # Len(a) + 1 \/ (LET y == LX!NextTok(cat, x.e) IN y.k \in LX!Bad \/ y.e # Len(cat) + 1)
Rendered(seed) == [j \in 1..Len(toks) |->
   IF toks[j].t = "SB" THEN [t |-> "SB", w |-> <<>>, s |-> toks[j].s, d |-> toks[j].d, sep |-> FALSE]
   ELSE [t |-> toks[j].t, w |-> Spell(toks[j].t, seed + j), s |-> toks[j].s, d |-> toks[j].d, sep |-> FALSE]]
WithSep(r) == [j \in 1..Len(r) |->
   IF r[j].t = "SB" THEN r[j]
   ELSE LET prevs == {i \in 1..(j-1) : r[i].t # "SB"} IN
        IF prevs = {} THEN r[j]
        ELSE LET i == CHOOSE i \in prevs : \A m \in prevs : m <= i IN [r[j] EXCEPT !.sep = NeedSep(r[i].w, r[j].w)]]
Emit == Done => PrintT(ToJson([toks |-> WithSep(Rendered(Len(deriv))), deriv |-> deriv]))
=============================================================================
