#!/bin/sh
# setup_cmd: nothing to build - specs are interpreted by TLC, the harness is Python run from
# /venv. Verifies the tools and creates the output directories.
set -e
cd "$(dirname "$0")"
java -version >/dev/null 2>&1
test -f /opt/veriftools/tla/tla2tools.jar
/venv/bin/python -c "import sys; sys.path.insert(0, '/repo'); import pico8.lua.lua, png"
mkdir -p evidence replays
echo setup ok
